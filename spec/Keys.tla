--------------------------------- MODULE Keys ---------------------------------
(***************************************************************************)
(* Key material as RLWE samples (properties C16, C04, C18).                *)
(*                                                                         *)
(* Every component k = (c0, c1) of a generated key, over the key-level     *)
(* primes q_1..q_k, P, satisfies                                           *)
(*        c0 + c1 * s  =  payload + e      in Z[X]/(X^N+1) modulo every    *)
(* prime, with ONE small signed integer e per coefficient (|e| <= bound,   *)
(* the support of the error sampler), where s is the secret key the        *)
(* component was generated under and the payload is                        *)
(*    0                      public key                                    *)
(*    P * s^2    on prime i  component i of the relinearization key        *)
(*    P * s(X^g) on prime i  component i of the Galois key of element g    *)
(*    P * s'     on prime i  component i of the key switching from s'      *)
(* (zero on the other primes).  The harness records, per coefficient, the  *)
(* residues of c0 + c1*s - payload; this module states that they are the   *)
(* residues of one small integer.  For a collective (multiparty) key s is  *)
(* the sum of the parties' secret keys and the bound is n * 21.  In BGV    *)
(* every error is scaled by the plain modulus t (mult = t).                *)
(***************************************************************************)
EXTENDS BigNat

AbsK(v) == IF v < 0 THEN 0 - v ELSE v
\* r = v mod q for a small signed v
ResidueOfSmall(r, v, q) == IF v >= 0 THEN r = FromInt(v) ELSE BAdd(r, FromInt(0 - v)) = q

KeyEventOk(e) ==
  \A ci \in 1..Len(e.comps) :
    LET comp == e.comps[ci] IN
    /\ Len(comp.res) = e.n /\ Len(comp.e) = e.n
    /\ \A c \in 1..e.n :
         /\ AbsK(comp.e[c]) <= e.bound * e.mult /\ AbsK(comp.e[c]) % e.mult = 0      \* BGV: e = t * e' (mult = t), otherwise mult = 1
         /\ Len(comp.res[c]) = Len(e.q)
         /\ \A j \in 1..Len(e.q) : ResidueOfSmall(comp.res[c][j], comp.e[c], e.q[j])
===============================================================================
