------------------------------- MODULE Trace_Rng -------------------------------
EXTENDS BlakeRng, Json, IOUtils
Rec == ndJsonDeserialize(IOEnv.TRACE)
VARIABLES l, bad
LineOk(e) == CASE e.ev = "history" -> HistoryFresh(e.events)
               [] e.ev = "sample"  -> SampleOk(e)
               [] e.ev = "freq"    -> FreqOk(e)
               [] e.ev = "flag"    -> e.ok
               [] OTHER -> FALSE
TInit == l = 1 /\ bad = <<>> /\ p = 0 /\ hist = <<>>
TNext == /\ l <= Len(Rec) /\ l' = l + 1
         /\ bad' = IF LineOk(Rec[l]) THEN bad ELSE Append(bad, <<l, 1>>)
         /\ UNCHANGED <<p, hist>>
TSpec == TInit /\ [][TNext]_<<l, bad, p, hist>>
Done == l = Len(Rec) + 1
Report == Done => PrintT(<<"BAD", ToJson([bad |-> bad, lines |-> Len(Rec)])>>)
AllHold == Done => bad = <<>>
================================================================================
