----------------------------- MODULE GaloisCache -----------------------------
(***************************************************************************)
(* The lazily filled permutation-table cache of the Galois tool shared by  *)
(* all evaluators / key generators of one context (property C17).          *)
(*                                                                         *)
(* A call apply(e) goes through: check (read lock) - is the table for e    *)
(* there? ; generate (write lock, only if it was missing; regeneration by  *)
(* a second thread is idempotent) ; use (read lock).  Each thread performs *)
(* a sequence of calls.  Each lock phase is one atomic action.             *)
(***************************************************************************)
EXTENDS Integers, Sequences, TLC

CONSTANTS Threads,   \* set of thread ids
          Calls,     \* Calls[t] : sequence of table indices thread t applies
          Slots      \* set of table indices

VARIABLES tbl,      \* tbl[e] : TRUE when the table for e is present
          pc,       \* "before_check" | "before_generate" | "before_use" | "done"
          ci,       \* ci[t] : index of the current call of thread t
          bad,      \* set of <<t, call index>> whose use phase saw a missing table
          hist
vars == <<tbl, pc, ci, bad, hist>>

Cur(t) == Calls[t][ci[t]]

Init == /\ tbl = [e \in Slots |-> FALSE]
        /\ pc = [t \in Threads |-> IF Len(Calls[t]) = 0 THEN "done" ELSE "before_check"]
        /\ ci = [t \in Threads |-> 1]
        /\ bad = {}
        /\ hist = <<>>

Log(t, e, full) == hist' = Append(hist, [t |-> t, at |-> pc[t], e |-> e, full |-> full])

Check(t) == /\ pc[t] = "before_check"
            /\ pc' = [pc EXCEPT ![t] = IF tbl[Cur(t)] THEN "before_use" ELSE "before_generate"]
            /\ UNCHANGED <<tbl, ci, bad>> /\ Log(t, Cur(t), tbl[Cur(t)])

Generate(t) == /\ pc[t] = "before_generate"
               /\ tbl' = [tbl EXCEPT ![Cur(t)] = TRUE]
               /\ pc' = [pc EXCEPT ![t] = "before_use"]
               /\ UNCHANGED <<ci, bad>> /\ Log(t, Cur(t), TRUE)

Use(t) == /\ pc[t] = "before_use"
          /\ bad' = IF tbl[Cur(t)] THEN bad ELSE bad \cup {<<t, ci[t]>>}
          /\ IF ci[t] < Len(Calls[t])
             THEN ci' = [ci EXCEPT ![t] = ci[t] + 1] /\ pc' = [pc EXCEPT ![t] = "before_check"]
             ELSE ci' = ci /\ pc' = [pc EXCEPT ![t] = "done"]
          /\ UNCHANGED tbl /\ Log(t, Cur(t), tbl[Cur(t)])

Step(t) == Check(t) \/ Generate(t) \/ Use(t)
Next == \E t \in Threads : Step(t)
Spec == Init /\ [][Next]_vars /\ \A t \in Threads : WF_vars(Step(t))

AllDone == \A t \in Threads : pc[t] = "done"
UseSeesTable == bad = {}
NeverCleared == [][\A e \in Slots : tbl[e] => tbl'[e]]_vars
Progress == AllDone \/ ENABLED Next
Terminates == <>AllDone
=============================================================================
