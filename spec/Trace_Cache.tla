----------------------------- MODULE Trace_Cache -----------------------------
(***************************************************************************)
(* Trace validation for free-running concurrent workloads (C17).  Each     *)
(* line is one run: the events recorded under the library's own locks, in  *)
(* the order in which they were appended.  The events of one shared object *)
(* must be explainable by the lock-phase actions of KeyCache / GaloisCache *)
(* applied to a single abstract state: the cache length (or the set of     *)
(* tables present) evolves monotonically and no use phase sees less than   *)
(* it needs.                                                               *)
(***************************************************************************)
EXTENDS Integers, Sequences, TLC, Json, IOUtils

Rec == ndJsonDeserialize(IOEnv.TRACE)

VARIABLES l, bad
tvars == <<l, bad>>

\* fold over the events of one run; state = [len (per object kind), tables]
RECURSIVE Fold(_, _, _, _)
Fold(evs, i, st, n) ==
  IF i > Len(evs) THEN TRUE
  ELSE LET e == evs[i] IN
    IF e.obj \in {"dec", "kg"} THEN
      LET cur == st[e.obj] IN
      CASE e.site = "read"       -> e.f[1] = cur /\ Fold(evs, i+1, st, n)
        [] e.site = "write_skip" -> e.f[1] = cur /\ cur >= e.f[2] /\ Fold(evs, i+1, st, n)
        [] e.site = "write"      -> e.f[1] = cur /\ e.f[2] > cur /\ e.f[3] = e.f[2] /\ Fold(evs, i+1, [st EXCEPT ![e.obj] = e.f[3]], n)
        [] e.site = "use"        -> e.f[1] = cur /\ cur >= e.f[2] /\ Fold(evs, i+1, st, n)
        [] OTHER -> FALSE
    ELSE
      LET has == e.f[1] \in st.tables IN
      CASE e.site = "check"    -> (e.f[2] > 0) = has /\ Fold(evs, i+1, st, n)
        [] e.site = "generate" -> e.f[2] = n /\ Fold(evs, i+1, [st EXCEPT !.tables = st.tables \cup {e.f[1]}], n)
        [] e.site = "use"      -> has /\ e.f[2] = n /\ Fold(evs, i+1, st, n)
        [] OTHER -> FALSE

RunOk(r) == r.results_ok /\ Fold(r.events, 1, [dec |-> 1, kg |-> 1, tables |-> {}], r.n)

TInit == l = 1 /\ bad = <<>>
TNext == /\ l <= Len(Rec)
         /\ l' = l + 1
         /\ bad' = IF RunOk(Rec[l]) THEN bad ELSE Append(bad, <<l, 1>>)
TSpec == TInit /\ [][TNext]_tvars
Done == l = Len(Rec) + 1
Report == Done => PrintT(<<"BAD", ToJson([bad |-> bad, lines |-> Len(Rec)])>>)
AllHold == Done => bad = <<>>
==============================================================================
