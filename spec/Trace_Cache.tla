----------------------------- MODULE Trace_Cache -----------------------------
(***************************************************************************)
(* Trace validation for free-running concurrent workloads (C17).  Each     *)
(* line is one run: the events recorded under the library's own locks, in  *)
(* the order in which they were appended.  The events of one shared object *)
(* must be explainable by the lock-phase actions of KeyCache / GaloisCache *)
(* applied to a single abstract state: the cache length (or the set of     *)
(* tables present) evolves monotonically and no use phase sees less than   *)
(* it needs.                                                               *)
(***************************************************************************)
EXTENDS Integers, Sequences, TLC, Json, IOUtils

Rec == ndJsonDeserialize(IOEnv.TRACE)

VARIABLES l, bad
tvars == <<l, bad>>

\* fold over the events of one run; state = cache length per object kind, the set of tables present, and per thread
\* the lock phase it is in (idle -> hit | miss -> ready -> idle) together with what it asked for.  The global part says the
\* shared object evolves like the specification's; the per-thread part says every thread walks through the phases of
\* KeyCache / GaloisCache in order and uses what it asked for.
RECURSIVE Fold(_, _, _, _)
Fold(evs, i, st, n) ==
  IF i > Len(evs) THEN \A t \in DOMAIN st.pc : st.pc[t] = "idle"            \* every operation ran to completion
  ELSE LET e == evs[i]
           t == e.t
           pc == st.pc[t]
           Go(st2, phase, want) == Fold(evs, i+1, [st2 EXCEPT !.pc[t] = phase, !.want[t] = want], n)
       IN
    IF e.obj \in {"dec", "kg"} THEN
      LET cur == st[e.obj] IN
      CASE e.site = "read"       -> pc = "idle" /\ e.f[1] = cur /\ Go(st, IF cur >= e.f[2] THEN "hit" ELSE "miss", e.f[2])
        [] e.site = "write_skip" -> pc = "miss" /\ e.f[2] = st.want[t] /\ e.f[1] = cur /\ cur >= e.f[2] /\ Go(st, "ready", e.f[2])
        [] e.site = "write"      -> pc = "miss" /\ e.f[2] = st.want[t] /\ e.f[1] = cur /\ e.f[2] > cur /\ e.f[3] = e.f[2]
                                    /\ Go([st EXCEPT ![e.obj] = e.f[3]], "ready", e.f[2])
        [] e.site = "use"        -> pc \in {"hit", "ready"} /\ e.f[2] = st.want[t] /\ e.f[1] = cur /\ cur >= e.f[2] /\ Go(st, "idle", 0)
        [] OTHER -> FALSE
    ELSE
      LET has == e.f[1] \in st.tables IN
      CASE e.site = "check"    -> pc = "idle" /\ (e.f[2] > 0) = has /\ Go(st, IF has THEN "hit" ELSE "miss", e.f[1])
        [] e.site = "generate" -> pc = "miss" /\ e.f[1] = st.want[t] /\ e.f[2] = n /\ Go([st EXCEPT !.tables = st.tables \cup {e.f[1]}], "ready", e.f[1])
        [] e.site = "use"      -> pc \in {"hit", "ready"} /\ e.f[1] = st.want[t] /\ has /\ e.f[2] = n /\ Go(st, "idle", 0)
        [] OTHER -> FALSE

RunOk(r) == r.results_ok /\ (\A t \in 1..r.threads : \E i \in 1..Len(r.events) : r.events[i].t = t)      \* every thread took part
                        /\ Fold(r.events, 1, [dec |-> 1, kg |-> 1, tables |-> {}, pc |-> [t \in 1..r.threads |-> "idle"], want |-> [t \in 1..r.threads |-> 0]], r.n)

TInit == l = 1 /\ bad = <<>>
TNext == /\ l <= Len(Rec)
         /\ l' = l + 1
         /\ bad' = IF RunOk(Rec[l]) THEN bad ELSE Append(bad, <<l, 1>>)
TSpec == TInit /\ [][TNext]_tvars
Done == l = Len(Rec) + 1
Report == Done => PrintT(<<"BAD", ToJson([bad |-> bad, lines |-> Len(Rec)])>>)
AllHold == Done => bad = <<>>
==============================================================================
