--------------------------- MODULE SerializeFaults ---------------------------
(***************************************************************************)
(* C15: behaviour of a serializer over a writer that accepts fewer bytes   *)
(* than offered and/or fails at some call, and of a deserializer over a    *)
(* stream that ends early.  The field sequence comes from Serialize.tla.   *)
(***************************************************************************)
EXTENDS Serialize

(***************************************************************************)
(* Part 2: writer faults.  A behaviour is fixed by (fields, caps, failAt):  *)
(* fields = Layout of the object, caps[i] = acceptance limit of the i-th   *)
(* write call (calls beyond Len(caps) accept everything), failAt = index   *)
(* of the write call that returns an error (0 = never).                    *)
(***************************************************************************)
CONSTANTS WAll      \* TRUE: the serializer uses write_all per field (the design); FALSE: one write per field, count ignored (the defect)

VARIABLES fields, caps, failAt,      \* the script (chosen in the initial state)
          fi,        \* index of the field being written
          left,      \* bytes of the current field still to be written
          calls,     \* write calls issued so far
          sink,      \* bytes accepted by the writer
          claimed,   \* bytes the serializer believes it has written
          result     \* "run" | "ok" | "err"
wvars == <<fields, caps, failAt, fi, left, calls, sink, claimed, result>>

CapAt(c) == IF c <= Len(caps) THEN caps[c] ELSE 1000000
Min(a, b) == IF a < b THEN a ELSE b

WriteCall ==
  /\ result = "run"
  /\ fi <= Len(fields)
  /\ LET c == calls + 1
         want == left
         got == Min(want, CapAt(c))
     IN /\ calls' = c
        /\ IF failAt = c
           THEN /\ result' = "err" /\ UNCHANGED <<fi, left, sink, claimed>>
           ELSE /\ sink' = sink + got
                /\ IF WAll
                   THEN IF got = want
                        THEN /\ fi' = fi + 1
                             /\ left' = IF fi + 1 <= Len(fields) THEN fields[fi+1] ELSE 0
                             /\ claimed' = claimed + fields[fi]
                        ELSE /\ left' = want - got /\ UNCHANGED <<fi, claimed>>
                   ELSE /\ fi' = fi + 1                 \* the returned count is ignored
                        /\ left' = IF fi + 1 <= Len(fields) THEN fields[fi+1] ELSE 0
                        /\ claimed' = claimed + got
                /\ result' = "run"
  /\ UNCHANGED <<fields, caps, failAt>>

Finish ==
  /\ result = "run" /\ fi > Len(fields)
  /\ result' = "ok"
  /\ UNCHANGED <<fields, caps, failAt, fi, left, calls, sink, claimed>>

WNext == WriteCall \/ Finish

\* the property of C15 for the writing direction
OkMeansComplete == result = "ok" => sink = SumSeq(fields)
ClaimTruthful == result = "ok" => claimed = sink
=============================================================================
