----------------------------- MODULE Trace_Params -----------------------------
(* Trace validation for C13: one event per parameter object built through the real builder / HeContext::new
   (sorted by parameter identifier so that identifier collisions are neighbours), plus events for generated moduli. *)
EXTENDS Params, Json, IOUtils

Rec == ndJsonDeserialize(IOEnv.TRACE)
VARIABLES l, bad
tvars == <<l, bad>>

LineOk(i) ==
  LET ev == Rec[i] IN
  CASE ev.ev = "parm" -> ParmEventOk(ev) /\ (i > 1 /\ Rec[i-1].ev = "parm" => IdOk(Rec[i-1], ev))
    [] ev.ev = "gen"  -> GenEventOk(ev)
    [] OTHER -> FALSE

TInit == l = 1 /\ bad = <<>> /\ built = 0
TNext == /\ l <= Len(Rec)
         /\ l' = l + 1
         /\ bad' = IF LineOk(l) THEN bad ELSE Append(bad, <<l, 1>>)
         /\ UNCHANGED built
TSpec == TInit /\ [][TNext]_<<l, bad, built>>
Done == l = Len(Rec) + 1
Report == Done => PrintT(<<"BAD", ToJson([bad |-> bad, lines |-> Len(Rec)])>>)
AllHold == Done => bad = <<>>
===============================================================================
