-------------------------------- MODULE Budget --------------------------------
(***************************************************************************)
(* The invariant noise budget (property C07), on exact integers.           *)
(*                                                                         *)
(* For a ciphertext c under secret key s at a level with modulus Q the     *)
(* phase is x = c_0 + c_1 s + ... + c_k s^k mod Q (one integer x_j per     *)
(* coefficient, computed by the harness independently of the Decryptor and *)
(* certified here through its residues).  The noise integer is             *)
(*    BFV : w_j = centred(t * x_j mod Q)        BGV : w_j = centred(x_j)   *)
(* and  Budget = max(0, bits(Q) - bits(max_j |w_j|) - 1).                  *)
(* Rules: a fresh encryption has at least the budget of the worst-case     *)
(* sample bounds (|e| <= 21, ternary s, u); negation keeps the budget;     *)
(* adding / subtracting k ciphertexts (equal correction factors) lowers    *)
(* the smallest operand budget by at most ceil(log2 k) + 1; and whenever   *)
(* 2*max|w_j| < Q the decrypted plaintext is the expected one.             *)
(***************************************************************************)
EXTENDS Ckks

RECURSIVE BitLenSmallInt(_)
BitLenSmallInt(x) == IF x <= 0 THEN 0 ELSE 1 + BitLenSmallInt(x \div 2)
RECURSIVE CeilLog2(_)
CeilLog2(k) == IF k <= 1 THEN 0 ELSE 1 + CeilLog2((k + 1) \div 2)

RECURSIVE MaxBits(_, _)
MaxBits(ws, j) == IF j = 0 THEN 0 ELSE LET r == MaxBits(ws, j-1)  b == BBitLen(ws[j].mag) IN IF b > r THEN b ELSE r
RECURSIVE MinInt(_, _)
MinInt(s, j) == IF j = 1 THEN s[1] ELSE LET r == MinInt(s, j-1) IN IF s[j] < r THEN s[j] ELSE r
MaxInt(a, b) == IF a > b THEN a ELSE b

\* x_j certified by residues; w_j by  t*x_j = k*Q + w'  (w' in [0,Q)) and centring, or w_j = centred(x_j)
CoefNoiseOk(e, j) ==
  LET c == e.coef[j] IN   \* c = [x (in [0,Q)), r, h, kq, wneg, wmag]
  /\ BLt(c.x, e.Q)
  /\ \A i \in 1..Len(e.q) : DivModCert(c.x, e.q[i], c.h[i], c.r[i])
  /\ LET y == IF e.scheme = "bfv" THEN BMul(c.x, e.t) ELSE c.x
         wp == IF c.wneg THEN BSub(e.Q, c.wmag) ELSE c.wmag            \* w' = w mod Q
     IN /\ BLe(c.wmag, e.Q)
        /\ y = BAdd(BMul(c.kq, e.Q), wp)                                 \* y = w (mod Q)
        /\ (IF c.wneg THEN BLe(BMulLimb(c.wmag, 2), e.Q) ELSE BLt(BMulLimb(c.wmag, 2), BAdd(e.Q, BOne)))   \* centred

\* W = t*x - Q*m + adj*t*Q with adj in {-1,0,1}, |W| <= t*Q/2 ; sides arranged so that everything is non-negative
TrueNoiseOk(e, j) ==
  LET c == e.coef[j]
      tQ == BMul(e.t, e.Q)
      lhs == BAdd(BAdd(BMul(e.t, c.x), IF c.adj = 1 THEN tQ ELSE <<>>), IF c.tneg THEN c.tmag ELSE <<>>)
      rhs == BAdd(BAdd(BMul(e.Q, e.exp[j]), IF c.adj = -1 THEN tQ ELSE <<>>), IF c.tneg THEN <<>> ELSE c.tmag)
  IN /\ c.adj \in {-1, 0, 1}
     /\ lhs = rhs
     /\ BLe(BMulLimb(c.tmag, 2), tQ)

BudgetOf(e) == MaxInt(0, BBitLen(e.Q) - MaxBits(e.coef, Len(e.coef)) - 1)

\* worst-case fresh noise: |w| <= 2 t (21 (2N+1) + 2) (BFV, also after the internal switch from the key level); BGV: t (21 (2N+1) + 2) + t; tbits = bit length of t
FreshNoiseBits(e) == e.tbits + BitLenSmallInt(2 * (21 * (2 * e.n + 1) + 2)) + 1
FreshMin(e) == MaxInt(0, BBitLen(e.Q) - FreshNoiseBits(e) - 1)

BudgetEventOk(e) ==
  /\ \A j \in 1..Len(e.coef) : CoefNoiseOk(e, j)
  /\ e.reported = BudgetOf(e)
  /\ CASE e.rule = "fresh"  -> e.reported >= FreshMin(e)
       [] e.rule = "negate" -> e.reported = e.operands[1]
       [] e.rule = "addk"   -> e.reported + CeilLog2(Len(e.operands)) + 1 >= MinInt(e.operands, Len(e.operands))
       [] e.rule = "none"   -> TRUE
  \* BFV: the true noise numerator W_j = t*x_j - Q*m_j (centred modulo t*Q, m the expected plaintext); below Q/2 decryption is exact
  /\ (e.scheme = "bfv" =>
        /\ \A j \in 1..Len(e.coef) : TrueNoiseOk(e, j)
        /\ (e.below_threshold = \A j \in 1..Len(e.coef) : BLt(BMulLimb(e.coef[j].tmag, 2), e.Q))
        /\ (e.below_threshold => e.dec = e.exp))
  \* BGV: a positive budget means the noise is below the threshold, so decryption returns the expected plaintext
  /\ (e.scheme = "bgv" /\ e.reported > 0 => e.dec = e.exp)
===============================================================================
