--------------------------------- MODULE Rns ---------------------------------
(***************************************************************************)
(* Integer specifications of the RNS tools (property C10), stated on exact *)
(* integers (BigNat).  Every event concerns ONE coefficient; the harness   *)
(* builds the inputs from integers it knows, so each routine's             *)
(* post-condition can be stated about that integer.  Quotients and the     *)
(* bounded error terms (a, u) are untrusted hints.                         *)
(*                                                                         *)
(* Notation: q = q_1..q_k with product Q; p ranges over the output base.   *)
(*  crt      : residues r_i = X mod q_i  <->  X in [0, Q)   (bijection)    *)
(*  conv     : fast base conversion returns (X + a*Q) mod p with ONE       *)
(*             a in 0..k-1 for all p                                       *)
(*  mtilde   : the same for Y = [m~ * X]_Q, outputs over Bsk and m~        *)
(*  mrq      : r = centred(-c_m~ * Q^-1 mod m~);                           *)
(*             out_p * m~ = c_p + Q*r (mod p)                              *)
(*  floor    : out_p = floor(X / Q) - a (mod p), a in 0..k-1               *)
(*  sk       : out_i = Y mod q_i for a signed Y (Shenoy-Kumaresan)         *)
(*  divround : out_i = floor((X + floor(q_k/2)) / q_k) mod q_i             *)
(*  modtdiv  : u in [0,t) with (X mod q_k) + q_k*u = 0 (mod t);            *)
(*             out_i = floor(X/q_k) - u (mod q_i)  [so out*q_k = X mod t]  *)
(*  scaleround : t*X = Q*m + e with 4|e| <= Q  =>  out = m                 *)
(*  modt     : X = c (mod Q) with 4|c| <= Q    =>  out = c mod t           *)
(***************************************************************************)
EXTENDS Batch

\* L == R (mod p) with quotient hint k; lge tells which side is larger
Cong(L, R, p, k, lge) == IF lge THEN L = BAdd(R, BMul(k, p)) ELSE R = BAdd(L, BMul(k, p))
\* r = v mod p for a signed v = (-1)^neg * mag
ModSigned(neg, mag, p, k, r) ==
  /\ BLt(r, p)
  /\ IF neg /\ ~BIsZero(mag) THEN BAdd(mag, r) = BMul(k, p) ELSE mag = BAdd(BMul(k, p), r)
AllLt(rs, ps) == \A i \in 1..Len(rs) : BLt(rs[i], ps[i])
SmallNat(a, bound) == a \in 0..(bound - 1)

RnsHolds(e) ==
  CASE e.op = "rns_crt" ->       \* e.q, e.r (residues), x = <<X>>, e.h : both directions of the bijection
         /\ BLt(e.x[1], ProdAll(e.q, 1))
         /\ \A i \in 1..Len(e.q) : DivModCert(e.x[1], e.q[i], e.h[i], e.r[i])
    [] e.op = "rns_conv" ->      \* e.q, e.p, x = <<X>>, n = <<a>>, e.o, e.h
         LET Q == ProdAll(e.q, 1) IN
         /\ BLt(e.x[1], Q) /\ SmallNat(e.n[1], Len(e.q))
         /\ \A j \in 1..Len(e.p) : DivModCert(BAdd(e.x[1], BMulLimb(Q, e.n[1])), e.p[j], e.h[j], e.o[j])
    [] e.op = "rns_mtilde" ->    \* x = <<X, mt, Y, ky>>, then like conv with Y
         LET Q == ProdAll(e.q, 1) IN
         /\ BLt(e.x[1], Q) /\ DivModCert(BMul(e.x[1], e.x[2]), Q, e.x[4], e.x[3])
         /\ SmallNat(e.n[1], Len(e.q))
         /\ \A j \in 1..Len(e.p) : DivModCert(BAdd(e.x[3], BMulLimb(Q, e.n[1])), e.p[j], e.h[j], e.o[j])
    [] e.op = "rns_mrq" ->       \* x = <<Q, mt, cmt, rm, hm>>, e.p, e.c, e.o, e.h, e.lge ; r = rm or rm - mt
         LET Q == e.x[1]  mt == e.x[2]  rm == e.x[4]
             neg == ~BLt(BMulLimb(rm, 2), mt)                         \* rm >= mt/2 represents rm - mt
             rabs == IF neg THEN BSub(mt, rm) ELSE rm
         IN /\ BLt(rm, mt)
            /\ BAdd(BMul(rm, Q), e.x[3]) = BMul(e.x[5], mt)             \* rm = -cmt * Q^-1 mod mt
            /\ \A j \in 1..Len(e.p) :
                 /\ BLt(e.o[j], e.p[j])
                 /\ IF neg THEN Cong(BAdd(BMul(e.o[j], mt), BMul(Q, rabs)), e.c[j], e.p[j], e.h[j], e.lge[j])
                    ELSE Cong(BMul(e.o[j], mt), BAdd(e.c[j], BMul(Q, rabs)), e.p[j], e.h[j], e.lge[j])
    [] e.op = "rns_floor" ->     \* x = <<X, fl, rem>>, n = <<a>>, e.q, e.p, e.o, e.h, e.lge
         LET Q == ProdAll(e.q, 1) IN
         /\ DivModCert(e.x[1], Q, e.x[2], e.x[3])
         /\ SmallNat(e.n[1], Len(e.q))
         /\ \A j \in 1..Len(e.p) :
              BLt(e.o[j], e.p[j]) /\ Cong(BAdd(e.o[j], FromInt(e.n[1])), e.x[2], e.p[j], e.h[j], e.lge[j])
    [] e.op = "rns_sk" ->        \* x = <<mag>>, n = <<neg>>, e.q, e.o, e.h
         \A i \in 1..Len(e.q) : ModSigned(e.n[1] = 1, e.x[1], e.q[i], e.h[i], e.o[i])
    [] e.op = "rns_divround" ->  \* x = <<X, v, rem, half>>, e.q (all k primes), e.o (k-1), e.h ; half = floor(q_k / 2)
         LET k == Len(e.q)  qk == e.q[k]
             half == e.x[4]
         IN /\ (BMulLimb(half, 2) = qk \/ BAdd(BMulLimb(half, 2), BOne) = qk)
            /\ DivModCert(BAdd(e.x[1], half), qk, e.x[2], e.x[3])
            /\ \A i \in 1..(k-1) : DivModCert(e.x[2], e.q[i], e.h[i], e.o[i])
    [] e.op = "rns_modtdiv" ->   \* x = <<X, fl, delta, t, u, ht>>, e.q, e.o (k-1), e.h, e.lge
         LET k == Len(e.q)  qk == e.q[k] IN
         /\ DivModCert(e.x[1], qk, e.x[2], e.x[3])
         /\ BLt(e.x[5], e.x[4])
         /\ BAdd(e.x[3], BMul(qk, e.x[5])) = BMul(e.x[6], e.x[4])
         /\ \A i \in 1..(k-1) :
              BLt(e.o[i], e.q[i]) /\ Cong(BAdd(e.o[i], e.x[5]), e.x[2], e.q[i], e.h[i], e.lge[i])
    [] e.op = "rns_scaleround" -> \* x = <<Q, t, X, m, eabs, out>>, n = <<eneg>>
         /\ IF e.n[1] = 1 THEN BAdd(BMul(e.x[2], e.x[3]), e.x[5]) = BMul(e.x[1], e.x[4])
            ELSE BMul(e.x[2], e.x[3]) = BAdd(BMul(e.x[1], e.x[4]), e.x[5])
         /\ BLe(BMulLimb(e.x[5], 4), e.x[1])
         /\ BLt(e.x[4], e.x[2])
         /\ e.x[6] = e.x[4]
    [] e.op = "rns_modt" ->      \* x = <<Q, t, X, cabs, kq, out, kt>>, n = <<cneg>>
         /\ BLe(BMulLimb(e.x[4], 4), e.x[1])
         /\ ModSigned(e.n[1] = 1, e.x[4], e.x[1], e.x[5], e.x[3])
         /\ ModSigned(e.n[1] = 1, e.x[4], e.x[2], e.x[7], e.x[6])
    [] OTHER -> NttHolds(e)

=============================================================================
