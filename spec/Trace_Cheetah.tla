---------------------------- MODULE Trace_Cheetah ----------------------------
(***************************************************************************)
(* Binding of Cheetah.tla: the REAL helper's block choice (visible in the  *)
(* number of encoded polynomials), encoded input and weight polynomials    *)
(* (decoded back to coefficient vectors) and transported-term lists are    *)
(* compared with the model's Search / EncodeInput / EncodeWeight / index   *)
(* maps, for structured operands with pairwise distinct entries.           *)
(***************************************************************************)
EXTENDS Cheetah, Json, IOUtils, TLC
Rec == ndJsonDeserialize(IOEnv.TRACE)
VARIABLES l, bad

LayoutOk(e) ==
  LET B == e.m  I == e.r  O == e.n
      bl == Search(B, I, O, e.objective)
      X == [x \in 0..(B-1) |-> [k \in 0..(I-1) |-> e.x[x * I + k + 1]]]
      W == [k \in 0..(I-1) |-> [y \in 0..(O-1) |-> e.w[k * O + y + 1]]]
      nb == CeilDiv(B, bl[1])  ni == CeilDiv(I, bl[2])  no == CeilDiv(O, bl[3])
  IN /\ e.N = N /\ ~e.panicked
     /\ Len(e.enc_in) = nb /\ \A r \in 0..(nb-1) : Len(e.enc_in[r+1]) = ni
     /\ \A r \in 0..(nb-1), c \in 0..(ni-1) :
          LET p == EncodeInput(X, r, c, B, I, bl) IN \A q \in Idx : e.enc_in[r+1][c+1][q+1] = p[q]
     /\ Len(e.enc_w) = ni /\ \A c \in 0..(ni-1) : Len(e.enc_w[c+1]) = no
     /\ \A c \in 0..(ni-1), d \in 0..(no-1) :
          LET p == EncodeWeight(W, c, d, I, O, bl) IN \A q \in Idx : e.enc_w[c+1][d+1][q+1] = p[q]
     /\ e.in_terms  = [q \in 1..(bl[1] * bl[2]) |-> ((q-1) \div bl[2]) * bl[2] * bl[3] + ((q-1) % bl[2])]
     /\ e.out_terms = [q \in 1..(bl[1] * bl[3]) |-> ((q-1) \div bl[3]) * bl[2] * bl[3] + ((q-1) % bl[3]) * bl[2] + bl[2] - 1]

TInit == l = 1 /\ bad = <<>> /\ done = FALSE
TNext == /\ l <= Len(Rec) /\ l' = l + 1 /\ UNCHANGED done
         /\ bad' = IF LayoutOk(Rec[l]) THEN bad ELSE Append(bad, <<l, 1>>)
TSpec == TInit /\ [][TNext]_<<l, bad, done>>
Done == l = Len(Rec) + 1
Report == Done => PrintT(<<"BAD", ToJson([bad |-> bad, lines |-> Len(Rec)])>>)
AllHold == Done => bad = <<>>
=============================================================================
