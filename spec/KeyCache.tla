------------------------------ MODULE KeyCache ------------------------------
(***************************************************************************)
(* The lazily grown secret-key-power cache shared by the threads using one *)
(* Decryptor (or one KeyGenerator) - property C17.                         *)
(*                                                                         *)
(* The cache holds the powers s^1..s^len.  A caller that needs `need`      *)
(* powers goes through the lock phases of the implementation:              *)
(*   read    (read lock)  : look at len; enough -> go on to use            *)
(*   compute (no lock)    : build a private array with `need` powers       *)
(*   write   (write lock) : re-check len; install the private array only   *)
(*                          if it is longer                                *)
(*   use     (read lock)  : read the first `need` powers                   *)
(* Each phase is one atomic action: the implementation holds the lock for  *)
(* the whole phase and the conformance hooks only yield between phases.    *)
(* Recheck = FALSE models the deviation "install without re-checking".     *)
(***************************************************************************)
EXTENDS Integers, Sequences, FiniteSets, TLC

CONSTANTS Threads,     \* set of thread ids (integers 1..n)
          Need,        \* Need[t] : number of powers thread t's call needs (sequence)
          InitLen,     \* powers present initially (1)
          Recheck      \* TRUE: the write phase re-checks the length (the design)

VARIABLES len,       \* length of the shared array
          pc,        \* pc[t] \in {"before_read","before_compute","before_write","before_use","done"}
          mine,      \* mine[t] : length of t's private array
          seen,      \* seen[t] : length observed in t's use phase (0 before)
          hist       \* observation: sequence of [t, at, len] steps
vars == <<len, pc, mine, seen, hist>>

Init == /\ len = InitLen
        /\ pc = [t \in Threads |-> "before_read"]
        /\ mine = [t \in Threads |-> 0]
        /\ seen = [t \in Threads |-> 0]
        /\ hist = <<>>

Log(t, l) == hist' = Append(hist, [t |-> t, at |-> pc[t], len |-> l])

Read(t) == /\ pc[t] = "before_read"
           /\ IF len >= Need[t]
              THEN pc' = [pc EXCEPT ![t] = "before_use"] /\ UNCHANGED mine
              ELSE pc' = [pc EXCEPT ![t] = "before_compute"] /\ mine' = [mine EXCEPT ![t] = Need[t]]
           /\ UNCHANGED <<len, seen>> /\ Log(t, len)

Compute(t) == /\ pc[t] = "before_compute"
              /\ pc' = [pc EXCEPT ![t] = "before_write"]
              /\ UNCHANGED <<len, mine, seen>> /\ Log(t, len)

Write(t) == /\ pc[t] = "before_write"
            /\ len' = IF Recheck /\ len >= Need[t] THEN len ELSE mine[t]
            /\ pc' = [pc EXCEPT ![t] = "before_use"]
            /\ UNCHANGED <<mine, seen>> /\ Log(t, len')

Use(t) == /\ pc[t] = "before_use"
          /\ seen' = [seen EXCEPT ![t] = len]
          /\ pc' = [pc EXCEPT ![t] = "done"]
          /\ UNCHANGED <<len, mine>> /\ Log(t, len)

Step(t) == Read(t) \/ Compute(t) \/ Write(t) \/ Use(t)
Next == \E t \in Threads : Step(t)
Spec == Init /\ [][Next]_vars /\ \A t \in Threads : WF_vars(Step(t))

AllDone == \A t \in Threads : pc[t] = "done"

(***************************************************************************)
(* Properties                                                              *)
(***************************************************************************)
\* a caller in its use phase never observes fewer powers than it needs (no partially built / shrunken cache)
UseSeesEnough == \A t \in Threads : pc[t] = "done" => seen[t] >= Need[t]
\* the cache never shrinks
Monotone == [][len' >= len]_vars
\* no deadlock: some thread can always move until all are done, and every thread finishes
Progress == AllDone \/ ENABLED Next
Terminates == <>AllDone
=============================================================================
