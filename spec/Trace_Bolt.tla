----------------------------- MODULE Trace_Bolt -----------------------------
(***************************************************************************)
(* Binding of Bolt.tla: the REAL helpers' encoded inputs and weights       *)
(* (decoded back to slot vectors) for operands with distinct entries, and  *)
(* the slots `encode_outputs` writes a result matrix to (the inverse of    *)
(* the read-out of `decode_outputs`), are compared with the model's        *)
(* layouts and read positions - number of ciphertexts included, which      *)
(* exposes the gap, the blocking and the baby-step / giant-step split.     *)
(***************************************************************************)
EXTENDS Bolt, Json, IOUtils, TLC
Rec == ndJsonDeserialize(IOEnv.TRACE)
VARIABLES l, bad

SameVec(rec, v) == Len(rec) = N /\ \A p \in Slots : rec[p + 1] = v[p]

LayoutOk(e) ==
  LET sh == [m |-> e.m, r |-> e.r, n |-> e.n]
      A == [i \in 0..(e.m-1) |-> [k \in 0..(e.r-1) |-> e.x[i * e.r + k + 1]]]
      B == [k \in 0..(e.r-1) |-> [j \in 0..(e.n-1) |-> e.w[k * e.n + j + 1]]]
      C == [i \in 0..(e.m-1) |-> [j \in 0..(e.n-1) |-> e.c[i * e.n + j + 1]]]
  IN /\ e.N = N /\ ~e.panicked
     /\ CASE e.helper = "bolt_cp" ->
               LET ic == CpIC(sh)  oc == CpOC(sh)  ir == CpIR(sh)  orr == CpOR(sh) IN
               /\ CpParamsOk(sh)
               /\ Len(e.enc_in) = CpChunks(sh) /\ \A ch \in 0..(CpChunks(sh)-1) : Len(e.enc_in[ch+1]) = ic
               /\ \A ch \in 0..(CpChunks(sh)-1), j \in 0..(ic-1) : SameVec(e.enc_in[ch+1][j+1], CpEncIn(A, sh, ch, j))
               /\ Len(e.enc_w) = ir * orr /\ \A q \in 1..(ir * orr) : Len(e.enc_w[q]) = oc * ic
               /\ \A a \in 0..(ir-1), b \in 0..(orr-1), i \in 0..(oc-1), j \in 0..(ic-1) :
                    SameVec(e.enc_w[a * orr + b + 1][i * ic + j + 1], CpEncW(B, sh, a, b, i, j))
               /\ Len(e.enc_out) = CpChunks(sh) /\ \A ch \in 0..(CpChunks(sh)-1) : Len(e.enc_out[ch+1]) = oc
               /\ \A row \in 0..(e.m-1), col \in 0..(e.n-1) :
                    LET rd == CpRead(sh, row, col) IN e.enc_out[rd[1]+1][rd[2]+1][rd[3]+1] = C[row][col]
          [] e.helper = "bolt_cc_cr" ->
               LET M == CrM(sh)  nb == CeilDiv(e.m, M)  wb == CeilDiv(e.n, M)  ic == CrIC(sh)  oc == CeilDiv(M, CrS(sh)) IN
               /\ Len(e.enc_in) = nb /\ \A bi \in 0..(nb-1) : Len(e.enc_in[bi+1]) = ic
               /\ \A bi \in 0..(nb-1), i \in 0..(ic-1) : SameVec(e.enc_in[bi+1][i+1], CrEncIn(A, sh, bi, i))
               /\ Len(e.enc_w) = wb /\ \A bj \in 0..(wb-1) : Len(e.enc_w[bj+1]) = ic
               /\ \A bj \in 0..(wb-1), i \in 0..(ic-1) : SameVec(e.enc_w[bj+1][i+1], CrEncW(B, sh, bj, i))
               /\ Len(e.enc_out) = nb * wb /\ \A q \in 1..(nb * wb) : Len(e.enc_out[q]) = oc
               /\ \A row \in 0..(e.m-1), col \in 0..(e.n-1) :
                    LET rd == CrRead(sh, row, col) IN e.enc_out[rd[1] * wb + rd[2] + 1][rd[3]+1][rd[4]+1] = C[row][col]
          [] OTHER ->
               LET br == DcBR(sh)  bc == DcBC(sh)  ac == DcAC(sh)  oc == DcOC(sh) IN
               /\ Len(e.enc_in) = br * bc /\ \A q \in 1..(br * bc) : Len(e.enc_in[q]) = ac
               /\ \A bi \in 0..(br-1), bj \in 0..(bc-1), i \in 0..(ac-1) : SameVec(e.enc_in[bi * bc + bj + 1][i+1], DcEncIn(A, sh, bi, bj, i))
               /\ Len(e.enc_w) = bc /\ \A bj \in 0..(bc-1) : Len(e.enc_w[bj+1]) = oc
               /\ \A bj \in 0..(bc-1), i \in 0..(oc-1) : SameVec(e.enc_w[bj+1][i+1], DcEncW(B, sh, bj, i))
               /\ Len(e.enc_out) = br /\ \A bi \in 0..(br-1) : Len(e.enc_out[bi+1]) = oc
               /\ \A row \in 0..(e.m-1), col \in 0..(e.n-1) :
                    LET rd == DcRead(sh, row, col) IN e.enc_out[rd[1]+1][rd[2]+1][rd[3]+1] = C[row][col]

TInit == l = 1 /\ bad = <<>> /\ st = <<0, 0, 0>>
TNext == /\ l <= Len(Rec) /\ l' = l + 1 /\ UNCHANGED st
         /\ bad' = IF LayoutOk(Rec[l]) THEN bad ELSE Append(bad, <<l, 1>>)
TSpec == TInit /\ [][TNext]_<<l, bad, st>>
Done == l = Len(Rec) + 1
Report == Done => PrintT(<<"BAD", ToJson([bad |-> bad, lines |-> Len(Rec)])>>)
AllHold == Done => bad = <<>>
=============================================================================
