--------------------------- MODULE KeyCacheProof ---------------------------
(***************************************************************************)
(* Unbounded safety of the key-power cache design (KeyCache.tla, C17):     *)
(* for ANY set of threads and ANY requested counts, an inductive invariant *)
(* implies that a caller's use phase sees at least what it needs and that  *)
(* the cache never shrinks.  Checked by the TLA+ proof system (tlapm);     *)
(* TLC checks the same properties exhaustively for 2-3 threads and is the  *)
(* source of the schedules replayed on the real code.                      *)
(***************************************************************************)
EXTENDS KeyCache, TLAPS

ASSUME Assumptions == /\ Need \in [Threads -> Nat]
                      /\ InitLen \in Nat
                      /\ Recheck = TRUE

PCs == {"before_read", "before_compute", "before_write", "before_use", "done"}

TypeOK == /\ len \in Nat
          /\ pc \in [Threads -> PCs]
          /\ mine \in [Threads -> Nat]
          /\ seen \in [Threads -> Nat]

IInv == /\ TypeOK
        /\ \A t \in Threads :
             /\ pc[t] \in {"before_compute", "before_write"} => mine[t] = Need[t]
             /\ pc[t] = "before_use" => len >= Need[t]
             /\ pc[t] = "done" => seen[t] >= Need[t]

THEOREM InitInv == Init => IInv
  BY Assumptions DEF Init, IInv, TypeOK, PCs

THEOREM StepInv == IInv /\ [Next]_vars => IInv' /\ len' >= len
<1> SUFFICES ASSUME IInv, [Next]_vars PROVE IInv' /\ len' >= len
  OBVIOUS
<1>1. CASE UNCHANGED vars
  BY <1>1 DEF IInv, TypeOK, vars
<1>2. ASSUME NEW t \in Threads, Read(t) PROVE IInv' /\ len' >= len
  BY <1>2, Assumptions DEF IInv, TypeOK, PCs, Read
<1>3. ASSUME NEW t \in Threads, Compute(t) PROVE IInv' /\ len' >= len
  BY <1>3, Assumptions DEF IInv, TypeOK, PCs, Compute
<1>4. ASSUME NEW t \in Threads, Write(t) PROVE IInv' /\ len' >= len
  BY <1>4, Assumptions DEF IInv, TypeOK, PCs, Write
<1>5. ASSUME NEW t \in Threads, Use(t) PROVE IInv' /\ len' >= len
  BY <1>5, Assumptions DEF IInv, TypeOK, PCs, Use
<1> QED
  BY <1>1, <1>2, <1>3, <1>4, <1>5 DEF Next, Step

THEOREM InvImpliesUse == IInv => UseSeesEnough
  BY DEF IInv, UseSeesEnough

THEOREM Safety == Spec => [](UseSeesEnough) /\ Monotone
<1>1. Init /\ [][Next]_vars => []IInv
  BY InitInv, StepInv, PTL
<1>2. IInv /\ [Next]_vars => (len' >= len)
  BY StepInv
<1>3. Init /\ [][Next]_vars => [][len' >= len]_vars
  BY <1>1, <1>2, PTL
<1> QED
  BY <1>1, <1>3, InvImpliesUse, PTL DEF Spec, Monotone
=============================================================================
