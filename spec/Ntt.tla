-------------------------------- MODULE Ntt --------------------------------
(***************************************************************************)
(* The negacyclic number-theoretic transform (property C09).               *)
(*                                                                         *)
(* For degree N = 2^k and a modulus q = 1 (mod 2N), psi is THE minimal     *)
(* primitive 2N-th root of unity modulo q (psi^N = -1, smallest such       *)
(* residue).  The forward transform of a polynomial a is its evaluation at *)
(* the odd powers of psi in bit-reversed order:                            *)
(*     NTT(a)[i] = a(psi^(2*brev_k(i)+1)),   i = 0..N-1.                   *)
(* The inverse transform is its inverse, and the point-wise product of     *)
(* transforms is the transform of the product modulo X^N+1.                *)
(* Lazy forms return congruent values: forward < 4q for inputs < 4q,       *)
(* inverse < 2q for inputs < 2q.                                           *)
(*                                                                         *)
(* Events (recorded from the real tables) are judged here, natively for    *)
(* q < 2^15 and through BigNat for moduli up to 61 bits.  Because the      *)
(* transform is linear, its action is fixed by the images of c*e_j.        *)
(***************************************************************************)
EXTENDS WordArith

RECURSIVE BrevAcc(_, _, _)
BrevAcc(x, bits, acc) == IF bits = 0 THEN acc ELSE BrevAcc(x \div 2, bits - 1, 2 * acc + (x % 2))
Brev(x, bits) == BrevAcc(x, bits, 0)
RECURSIVE Log2(_)
Log2(n) == IF n <= 1 THEN 0 ELSE 1 + Log2(n \div 2)

\* exponent of psi at output index i for the monomial X^j
Expo(i, j, n) == ((2 * Brev(i, Log2(n)) + 1) * j) % (2 * n)

(***************************************************************************)
(* native integers (q < 2^15)                                              *)
(***************************************************************************)
IsPsi(r, n, q) == PowI(r, n, q) = q - 1 /\ \A s \in 2..(r-1) : PowI(s, n, q) # q - 1
RECURSIVE SumF(_, _)
SumF(f, k) == IF k = 0 THEN 0 ELSE f[k] + SumF(f, k-1)
\* pw[k+1] = r^k mod q for k = 0..2N-1 (computed once per event)
PowTable(r, n, q) == [k \in 1..(2*n) |-> PowI(r, k-1, q)]
EvalAt(a, e, pw, q) == SumF([j \in 1..Len(a) |-> Mod(Mod(a[j], q) * pw[((e * (j-1)) % (2 * Len(a))) + 1], q)], Len(a)) % q
NttDefT(a, pw, q) == [i \in 1..Len(a) |-> EvalAt(a, 2 * Brev(i-1, Log2(Len(a))) + 1, pw, q)]
Negacyclic(a, b, q) ==
  LET n == Len(a) IN
  [k \in 1..n |-> SumF([i \in 1..n |-> IF i <= k THEN Mod(a[i] * b[k-i+1], q)
                                                   ELSE Mod(q - Mod(a[i] * b[n+k-i+1], q), q)], n) % q]
AllBelow(v, b) == \A i \in 1..Len(v) : v[i] >= 0 /\ v[i] < b
CongVec(u, v, q) == Len(u) = Len(v) /\ \A i \in 1..Len(u) : Mod(u[i], q) = Mod(v[i], q)

NttSmall(e) ==
  LET q == e.q  r == e.root  n == e.n
      pwt == PowTable(r, n, q)
      NttDef(a, rr, qq) == NttDefT(a, pwt, qq) IN
  /\ IsPsi(r, n, q)
  /\ \A k \in 1..Len(e.roots) : e.roots[k] = r                          \* independently constructed tables agree
  /\ \A k \in 1..Len(e.fwd) :                                           \* exact forward transform of reduced inputs
       e.fwd[k].out = NttDef(e.fwd[k].inp, r, q)
  /\ \A k \in 1..Len(e.inv) :                                           \* exact inverse: NTT(result) = input
       AllBelow(e.inv[k].out, q) /\ NttDef(e.inv[k].out, r, q) = e.inv[k].inp
  /\ \A k \in 1..Len(e.lazyf) :                                         \* lazy forward: inputs < 4q -> outputs < 4q, congruent
       AllBelow(e.lazyf[k].out, 4 * q) /\ CongVec(e.lazyf[k].out, NttDef(e.lazyf[k].inp, r, q), q)
  /\ \A k \in 1..Len(e.lazyi) :                                         \* lazy inverse: inputs < 2q -> outputs < 2q, congruent
       AllBelow(e.lazyi[k].out, 2 * q) /\ CongVec(NttDef(e.lazyi[k].out, r, q), e.lazyi[k].inp, q)
  /\ \A k \in 1..Len(e.conv) :                                          \* point-wise product <-> product mod X^N+1
       e.conv[k].c = Negacyclic(e.conv[k].a, e.conv[k].b, q)
  /\ \A k \in 1..Len(e.shift) :                                         \* multiplication by X^s
       e.shift[k].out = Negacyclic(e.shift[k].inp, [i \in 1..n |-> IF i = e.shift[k].s + 1 THEN 1 ELSE 0], q)

(***************************************************************************)
(* BigNat (moduli up to 61 bits): pw[k+1] = psi^k, certified by a chain    *)
(***************************************************************************)
\* pw[k+1] * root = hints[k+1] * q + pw[k+2]   for k = 0 .. Len(pw) - 2
ChainOk(pw, hints, q, root, k0) ==
  \A k \in k0..(Len(pw) - 2) : DivModCert(BMul(pw[k+1], root), q, hints[k+1], pw[k+2])

NttRoot(e) ==      \* x = <<q, root>>, e.pw (2N entries, pw[1] = 1), e.hints (2N-1), n = <<N>>
  LET q == e.x[1]  root == e.x[2]  n == e.n[1] IN
  /\ Len(e.pw) = 2 * n /\ e.pw[1] = BOne /\ e.pw[2] = root
  /\ ChainOk(e.pw, e.hints, q, root, 0)
  /\ BAdd(e.pw[n+1], BOne) = q                                    \* psi^N = -1
  /\ \A k \in 1..n : BLe(root, e.pw[2*k])                         \* minimal among all primitive roots psi^(odd)
  /\ \A k \in 1..Len(e.roots) : e.roots[k] = root                 \* independently constructed tables agree

NttUnit(e) ==      \* x = <<q, c>>, n = <<N, j, bound>>, e.pw, e.out (N), e.hints (N): image of c * X^j
  LET q == e.x[1]  c == e.x[2]  n == e.n[1]  j == e.n[2] IN
  \A i \in 1..n :
     /\ CongCert(BMul(c, e.pw[Expo(i-1, j, n) + 1]), q, e.hints[i], e.out[i])
     /\ BLt(e.out[i], BMulLimb(q, e.n[3]))                         \* bound = 1 exact, 4 lazy forward

NttInvUnit(e) ==   \* inverse of the transform of c*X^j is c*X^j: e.out has c at position j+1 and 0 elsewhere (mod q, < bound*q)
  LET q == e.x[1]  c == e.x[2]  n == e.n[1]  j == e.n[2] IN
  \A i \in 1..n :
     /\ BLt(e.out[i], BMulLimb(q, e.n[3]))
     /\ IF i = j + 1 THEN CongCert(e.out[i], q, e.hints[i], c) \/ CongCert(c, q, e.hints[i], e.out[i])
        ELSE e.out[i] = <<>> \/ e.out[i] = q

NttHolds(e) ==
  CASE e.op = "ntt_small"    -> NttSmall(e)
    [] e.op = "ntt_root"     -> NttRoot(e)
    [] e.op = "ntt_unit"     -> NttUnit(e)
    [] e.op = "ntt_inv_unit" -> NttInvUnit(e)
    [] OTHER -> Holds(e)
=============================================================================
