------------------------------ MODULE Trace_Lwe ------------------------------
EXTENDS Lwe, Json, IOUtils
Rec == ndJsonDeserialize(IOEnv.TRACE)
VARIABLES l, bad
TInit == l = 1 /\ bad = <<>> /\ kk = 0
TNext == /\ l <= Len(Rec) /\ l' = l + 1
         /\ bad' = IF LweEventOk(Rec[l]) THEN bad ELSE Append(bad, <<l, 1>>)
         /\ UNCHANGED kk
TSpec == TInit /\ [][TNext]_<<l, bad, kk>>
Done == l = Len(Rec) + 1
Report == Done => PrintT(<<"BAD", ToJson([bad |-> bad, lines |-> Len(Rec)])>>)
AllHold == Done => bad = <<>>
==============================================================================
