-------------------------------- MODULE Batch --------------------------------
(***************************************************************************)
(* Batch encoding as a ring isomorphism (property C11), with n and t as    *)
(* data so that one trace can mix parameter sets (t < 2^15: native ints).  *)
(*                                                                         *)
(* psi = minimal primitive 2n-th root of unity mod t.  Slot i of a         *)
(* polynomial a is a(psi^e_i), e_i = 3^i (first row, i < n/2) or           *)
(* -3^(i-n/2) (second row).  Encoding is the inverse of "take the slots"   *)
(* (shorter inputs zero padded).  Because slots are evaluations, sums and  *)
(* products modulo (X^n+1, t) act slot-wise.  The automorphism X -> X^g    *)
(* with g = 3^s rotates both rows left by s, g = 2n-1 swaps the rows.      *)
(***************************************************************************)
EXTENDS Ntt

MinPsi(n, t) == CHOOSE r \in 2..(t-1) : IsPsi(r, n, t)
SlotExpo(i, n) == IF i < n \div 2 THEN PowI(3, i, 2*n) ELSE 2*n - PowI(3, i - n \div 2, 2*n)
\* slots of polynomial a (sequence of n coefficients), using a power table of psi
SlotsOf(a, n, t, pw) ==
  [i \in 1..n |-> SumF([j \in 1..n |-> Mod(Mod(a[j], t) * pw[((SlotExpo(i-1, n) * (j-1)) % (2*n)) + 1], t)], n) % t]
PadTo(v, n) == [i \in 1..n |-> IF i <= Len(v) THEN v[i] ELSE 0]
RotRowsV(v, s, n) == LET h == n \div 2 IN
  [i \in 1..n |-> IF i <= h THEN v[((i - 1 + s) % h) + 1] ELSE v[h + ((i - 1 - h + s) % h) + 1]]
SwapRowsV(v, n) == LET h == n \div 2 IN [i \in 1..n |-> IF i <= h THEN v[i + h] ELSE v[i - h]]
PointMul(u, v, t) == [i \in 1..Len(u) |-> Mod(u[i] * v[i], t)]
PointAdd(u, v, t) == [i \in 1..Len(u) |-> Mod(u[i] + v[i], t)]
PolyAdd(a, b, t) == [i \in 1..Len(a) |-> Mod(a[i] + b[i], t)]

BatchEventOk(e) ==
  LET n == e.n  t == e.t
      psi == MinPsi(n, t)
      pw == PowTable(psi, n, t)
      S(a) == SlotsOf(PadTo(a, n), n, t, pw)
  IN
  /\ \A k \in 1..Len(e.enc) :                       \* encode: coefficients canonical, slots = padded input
       /\ AllBelow(e.enc[k].poly, t) /\ Len(e.enc[k].poly) <= n
       /\ S(e.enc[k].poly) = PadTo([i \in 1..Len(e.enc[k].v) |-> Mod(e.enc[k].v[i], t)], n)
  /\ \A k \in 1..Len(e.dec) :                       \* decode = take the slots (any polynomial, also short ones)
       e.dec[k].v = S(e.dec[k].poly)
  /\ \A k \in 1..Len(e.pairs) :                     \* ring isomorphism on encoder outputs
       LET a == PadTo(e.pairs[k].a, n)  b == PadTo(e.pairs[k].b, n) IN
       /\ S(Negacyclic(a, b, t)) = PointMul(S(a), S(b), t)
       /\ S(PolyAdd(a, b, t)) = PointAdd(S(a), S(b), t)
  /\ \A k \in 1..Len(e.rot) :                       \* the automorphism the library associates with step s
       IF e.rot[k].s = 0 THEN S(e.rot[k].out) = SwapRowsV(S(e.rot[k].inp), n)
       ELSE S(e.rot[k].out) = RotRowsV(S(e.rot[k].inp), e.rot[k].s % (n \div 2), n)
  /\ \A k \in 1..Len(e.coef) :                      \* coefficient encoding reduces modulo t, decoding inverts it
       /\ e.coef[k].poly = [i \in 1..Len(e.coef[k].vals) |-> Mod(e.coef[k].vals[i], t)]
       /\ e.coef[k].back = e.coef[k].poly

(***************************************************************************)
(* Plain moduli beyond native integers (up to 60 bits): what can be stated *)
(* without naming psi.  Values are BigNat limb arrays.                     *)
(*   rt    : decode(encode(v)) = v (zero padded), coefficients canonical   *)
(*   pairs : decode is a ring homomorphism: for encoder outputs A, B the   *)
(*           polynomial A*B mod (X^n+1, t) - formed by the harness in      *)
(*           128-bit arithmetic - decodes to the slot-wise product and     *)
(*           A+B to the slot-wise sum                                      *)
(*   rot   : the automorphism of step s rotates both rows left by s,       *)
(*           step 0 (column swap) exchanges the rows                       *)
(* An encoding with these properties is the evaluation isomorphism up to   *)
(* the order of the slots; the rotations tie the order to the generator.   *)
(***************************************************************************)
SumModOk(a, b, t, r) == BLt(r, t) /\ (BAdd(a, b) = r \/ BAdd(a, b) = BAdd(r, t))
BatchBigOk(e) ==
  LET n == e.n  t == e.t IN
  /\ \A k \in 1..Len(e.rt) :
       /\ e.rt[k].dec = e.rt[k].v
       /\ \A i \in 1..n : BLt(e.rt[k].poly[i], t)
  /\ \A k \in 1..Len(e.pairs) :
       LET p == e.pairs[k] IN
       \A i \in 1..n : /\ DivModCert(BMul(p.a[i], p.b[i]), t, p.h[i], p.prod[i])
                        /\ SumModOk(p.a[i], p.b[i], t, p.sum[i])
  /\ \A k \in 1..Len(e.rot) :
       IF e.rot[k].s = 0 THEN e.rot[k].out = SwapRowsV(e.rot[k].inp, n)
       ELSE e.rot[k].out = RotRowsV(e.rot[k].inp, e.rot[k].s % (n \div 2), n)
==============================================================================
