------------------------------- MODULE BigNat -------------------------------
(***************************************************************************)
(* Arbitrary-precision naturals for TLC (whose integers are 32-bit).       *)
(* A number is a little-endian sequence of limbs in base 2^15 without      *)
(* trailing zero limbs; zero is the empty sequence.  All intermediate      *)
(* values stay below 2^31: (2^15-1)^2 + 2*(2^15-1) < 2^31.                 *)
(*                                                                         *)
(* The module is used to state 64/128-bit and multi-word facts exactly.    *)
(* Quotients are supplied by the harness as untrusted hints: a fact        *)
(* a*b = k*m + r /\ r < m can only be accepted if it is true.              *)
(***************************************************************************)
EXTENDS Integers, Sequences

Base == 32768

IsLimbs(s) == /\ \A i \in 1..Len(s) : s[i] \in 0..(Base-1)
              /\ (Len(s) > 0 => s[Len(s)] # 0)

RECURSIVE Norm(_)
Norm(s) == IF Len(s) > 0 /\ s[Len(s)] = 0 THEN Norm(SubSeq(s, 1, Len(s)-1)) ELSE s

RECURSIVE FromInt(_)
FromInt(n) == IF n <= 0 THEN <<>> ELSE <<n % Base>> \o FromInt(n \div Base)

RECURSIVE ToInt(_)      \* only for values below 2^31
ToInt(s) == IF Len(s) = 0 THEN 0 ELSE s[1] + Base * ToInt(Tail(s))

Limb(s, i) == IF i <= Len(s) THEN s[i] ELSE 0
MaxI(a, b) == IF a > b THEN a ELSE b

RECURSIVE AddC(_, _, _, _)
AddC(a, b, i, c) ==
  IF i > MaxI(Len(a), Len(b)) THEN (IF c = 0 THEN <<>> ELSE <<c>>)
  ELSE LET t == Limb(a, i) + Limb(b, i) + c
       IN <<t % Base>> \o AddC(a, b, i+1, t \div Base)
BAdd(a, b) == AddC(a, b, 1, 0)

\* comparison: -1, 0, 1
RECURSIVE CmpFrom(_, _, _)
CmpFrom(a, b, i) == IF i = 0 THEN 0
                    ELSE IF a[i] < b[i] THEN -1 ELSE IF a[i] > b[i] THEN 1 ELSE CmpFrom(a, b, i-1)
BCmp(a, b) == IF Len(a) < Len(b) THEN -1 ELSE IF Len(a) > Len(b) THEN 1 ELSE CmpFrom(a, b, Len(a))
BLt(a, b) == BCmp(a, b) = -1
BLe(a, b) == BCmp(a, b) <= 0
BEq(a, b) == a = b

\* a - b for a >= b
RECURSIVE SubC(_, _, _, _)
SubC(a, b, i, c) ==
  IF i > Len(a) THEN <<>>
  ELSE LET t == a[i] - Limb(b, i) - c
       IN IF t < 0 THEN <<t + Base>> \o SubC(a, b, i+1, 1) ELSE <<t>> \o SubC(a, b, i+1, 0)
BSub(a, b) == Norm(SubC(a, b, 1, 0))

\* a * k for 0 <= k < Base
RECURSIVE MulLimbC(_, _, _, _)
MulLimbC(a, k, i, c) ==
  IF i > Len(a) THEN (IF c = 0 THEN <<>> ELSE <<c>>)
  ELSE LET t == a[i] * k + c IN <<t % Base>> \o MulLimbC(a, k, i+1, t \div Base)
BMulLimb(a, k) == IF k = 0 THEN <<>> ELSE MulLimbC(a, k, 1, 0)

Zeros(n) == [i \in 1..n |-> 0]
BShiftLimbs(a, n) == IF Len(a) = 0 THEN <<>> ELSE Zeros(n) \o a

RECURSIVE MulAcc(_, _, _)
MulAcc(a, b, j) == IF j > Len(b) THEN <<>>
                   ELSE BAdd(BShiftLimbs(BMulLimb(a, b[j]), j-1), MulAcc(a, b, j+1))
BMul(a, b) == IF Len(a) = 0 \/ Len(b) = 0 THEN <<>> ELSE MulAcc(a, b, 1)

\* 2^e
RECURSIVE Pow2Small(_)
Pow2Small(e) == IF e = 0 THEN 1 ELSE 2 * Pow2Small(e-1)
BPow2(e) == Zeros(e \div 15) \o <<Pow2Small(e % 15)>>

RECURSIVE BitLenSmall(_)
BitLenSmall(x) == IF x = 0 THEN 0 ELSE 1 + BitLenSmall(x \div 2)
BBitLen(a) == IF Len(a) = 0 THEN 0 ELSE 15 * (Len(a) - 1) + BitLenSmall(a[Len(a)])

BIsZero(a) == Len(a) = 0
BOne == <<1>>

(***************************************************************************)
(* Certified relations (k is an untrusted hint)                            *)
(***************************************************************************)
\* x = k*m + r with 0 <= r < m       i.e.  r = x mod m,  k = x div m
DivModCert(x, m, k, r) == BLt(r, m) /\ x = BAdd(BMul(k, m), r)
\* x == r (mod m) without range claim on r
CongCert(x, m, k, r) == x = BAdd(BMul(k, m), r)
\* x + k*m = r   (x == r mod m, for the direction where r is the larger side)
CongCertUp(x, m, k, r) == BAdd(x, BMul(k, m)) = r
=============================================================================
