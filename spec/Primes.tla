-------------------------------- MODULE Primes --------------------------------
(***************************************************************************)
(* Generated moduli of realistic size (property C13): CoeffModulus::create *)
(* and PlainModulus::batching must return distinct PRIMES of exactly the   *)
(* requested bit sizes, congruent to 1 modulo 2N.                          *)
(*                                                                         *)
(* Primality of a number below 2^64 is decided by the Miller-Rabin test    *)
(* with the first twelve primes as bases (deterministic below 3.3 * 10^24).*)
(* TLC does not search: for every base a the record carries the chain of   *)
(* squarings / multiplications that computes a^d mod p (p - 1 = d * 2^r,   *)
(* d odd) and the r - 1 further squarings, every step with its quotient    *)
(* as an untrusted hint; TLC verifies every step on exact integers         *)
(* (BigNat), that the exponent reached is d, and that the sequence shows   *)
(* 1 at the start or -1 somewhere - i.e. that a is not a witness of        *)
(* compositeness.                                                          *)
(***************************************************************************)
EXTENDS BigNat

Bases12 == <<2, 3, 5, 7, 11, 13, 17, 19, 23, 29, 31, 37>>

\* steps[i] = [k |-> "s" | "m", r |-> result, h |-> quotient]: cur -> cur^2 or cur * a (mod p); e follows the exponent
RECURSIVE Walk(_, _, _, _, _, _)
Walk(steps, i, cur, e, a, p) ==
  IF i > Len(steps) THEN [ok |-> TRUE, cur |-> cur, e |-> e]
  ELSE LET st == steps[i] IN
       IF st.k = "s"
       THEN IF DivModCert(BMul(cur, cur), p, st.h, st.r) THEN Walk(steps, i + 1, st.r, BMulLimb(e, 2), a, p)
            ELSE [ok |-> FALSE, cur |-> cur, e |-> e]
       ELSE IF DivModCert(BMul(cur, a), p, st.h, st.r) THEN Walk(steps, i + 1, st.r, BAdd(e, BOne), a, p)
            ELSE [ok |-> FALSE, cur |-> cur, e |-> e]

\* sq[i] = [r, h]: x_i = x_(i-1)^2 mod p for i = 1 .. r-1
RECURSIVE SquaresOk(_, _, _, _)
SquaresOk(sq, i, prev, p) ==
  IF i > Len(sq) THEN TRUE
  ELSE DivModCert(BMul(prev, prev), p, sq[i].h, sq[i].r) /\ SquaresOk(sq, i + 1, sq[i].r, p)

NotAWitness(b, p, d, r) ==
  LET a == FromInt(b.a)
      w == Walk(b.steps, 1, a, BOne, a, p)
      pm1 == BSub(p, BOne)
  IN /\ w.ok /\ w.e = d                                     \* the chain computes a^d mod p
     /\ Len(b.sq) = (IF r = 0 THEN 0 ELSE r - 1)
     /\ SquaresOk(b.sq, 1, w.cur, p)                        \* ... and x_1 .. x_(r-1)
     /\ (w.cur = BOne \/ w.cur = pm1 \/ \E i \in 1..Len(b.sq) : b.sq[i].r = pm1)

IsPrimeCert(p, c) ==      \* c = [d, r, bases]
  /\ BLt(FromInt(37), p) /\ Limb(p, 1) % 2 = 1
  /\ Limb(c.d, 1) % 2 = 1 /\ BMul(c.d, BPow2(c.r)) = BSub(p, BOne)        \* p - 1 = d * 2^r, d odd
  /\ Len(c.bases) = Len(Bases12)
  /\ \A i \in 1..Len(Bases12) : c.bases[i].a = Bases12[i] /\ NotAWitness(c.bases[i], p, c.d, c.r)

GenBigOk(e) ==      \* a refusal (panic) is allowed when the request cannot be met
  e.panic \/
    (/\ Len(e.primes) = Len(e.bits) /\ Len(e.certs) = Len(e.primes)
     /\ \A i \in 1..Len(e.primes) :
          /\ BBitLen(e.primes[i]) = e.bits[i]                                          \* exact size
          /\ DivModCert(e.primes[i], FromInt(2 * e.n), e.hmod[i], BOne)                \* = 1 (mod 2N)
          /\ IsPrimeCert(e.primes[i], e.certs[i])
          /\ \A j \in 1..Len(e.primes) : i # j => e.primes[i] # e.primes[j])          \* distinct

(***************************************************************************)
(* The primality test itself, in both directions: a value the library      *)
(* calls prime carries a Miller-Rabin record, a value it calls composite   *)
(* (above 1) a factorisation d * f with 1 < d, f as an untrusted hint.     *)
(* (Modulus::new computes the flag with the same routine: both must agree.)*)
(***************************************************************************)
SmallPrimes == {2, 3, 5, 7, 11, 13, 17, 19, 23, 29, 31, 37}
IsPrimeEventOk(e) ==
  /\ ~e.panic /\ e.flag = e.direct
  /\ IF e.flag THEN (IF BLe(e.v, FromInt(37)) THEN ToInt(e.v) \in SmallPrimes ELSE IsPrimeCert(e.v, e.cert))
     ELSE \/ BLe(e.v, BOne)
          \/ (BMul(e.d, e.f) = e.v /\ BLt(BOne, e.d) /\ BLt(BOne, e.f))

(***************************************************************************)
(* CoeffModulus::max_bit_count / bfv_default: the HomomorphicEncryption.org*)
(* table (ternary secret, classical security), and default moduli that are *)
(* distinct NTT primes for the degree whose product stays within the table.*)
(***************************************************************************)
StdBits(sec, n) ==
  LET row == CASE sec = "tc128" -> <<27, 54, 109, 218, 438, 881>>
               [] sec = "tc192" -> <<19, 37, 75, 152, 305, 611>>
               [] OTHER         -> <<14, 29, 58, 118, 237, 476>>
  IN CASE n = 1024 -> row[1] [] n = 2048 -> row[2] [] n = 4096 -> row[3] [] n = 8192 -> row[4]
       [] n = 16384 -> row[5] [] n = 32768 -> row[6] [] OTHER -> 0
RECURSIVE ProdB(_, _)
ProdB(ps, k) == IF k = 0 THEN BOne ELSE BMul(ProdB(ps, k - 1), ps[k])
DefaultEventOk(e) ==
  /\ ~e.maxbits_panic
  /\ e.maxbits = (IF e.sec = "none" THEN 2147483647 ELSE StdBits(e.sec, e.n))
  /\ IF e.sec = "none" \/ StdBits(e.sec, e.n) = 0 THEN e.panic           \* nothing sensible to return: refusal
     ELSE /\ ~e.panic /\ Len(e.primes) >= 1 /\ Len(e.certs) = Len(e.primes)
          /\ \A i \in 1..Len(e.primes) :
               /\ DivModCert(e.primes[i], FromInt(2 * e.n), e.hmod[i], BOne)
               /\ IsPrimeCert(e.primes[i], e.certs[i])
               /\ \A j \in 1..Len(e.primes) : i # j => e.primes[i] # e.primes[j]
          /\ BBitLen(ProdB(e.primes, Len(e.primes))) <= StdBits(e.sec, e.n)

PrimesEventOk(e) == CASE e.ev = "isprime" -> IsPrimeEventOk(e) [] e.ev = "default" -> DefaultEventOk(e) [] OTHER -> GenBigOk(e)
===============================================================================
