------------------------------ MODULE Serialize ------------------------------
(***************************************************************************)
(* Wire grammar of the serializable objects (C14) and the behaviour of a   *)
(* serializer / deserializer over faulty streams (C15).                    *)
(*                                                                         *)
(* Part 1: Layout(sh) is the sequence of field widths (in bytes) that      *)
(* serializing an object of shape sh must write, in order; Size(sh) is     *)
(* their sum.  A shape is the abstract view of an object:                  *)
(*   [k |-> "ct", fmt, scheme, size, n, limits, seeded, nterms]            *)
(*   [k |-> "pt", len]                plaintext / secret key (uncompressed)*)
(*   [k |-> "parms", scheme, nmod]    encryption parameters               *)
(*   [k |-> "vec", items]             length-prefixed sequence             *)
(*   [k |-> "ksk", keys]              parms id + vec of vec of ct          *)
(*   [k |-> "poly", n, limits]        single polynomial                    *)
(*   [k |-> "cat", items]             plain concatenation: an object of    *)
(*                                    the RNS-plaintext wrapper = its       *)
(*                                    components, one per plain modulus     *)
(* limits[j] = ceil(bits(q_j)/8) is the byte width of a residue.           *)
(*                                                                         *)
(* Part 2: a writer accepting at most cap bytes per call and optionally    *)
(* failing at some call; the serializer issues one write_all per field.    *)
(***************************************************************************)
EXTENDS Integers, Sequences, TLC

Rep(w, c) == [i \in 1..c |-> w]
RECURSIVE SumUpTo(_, _)
SumUpTo(s, k) == IF k = 0 THEN 0 ELSE s[k] + SumUpTo(s, k - 1)       \* (index recursion: Tail copies the sequence)
SumSeq(s) == SumUpTo(s, Len(s))
RECURSIVE Concat(_)
Concat(ss) == IF Len(ss) = 0 THEN <<>> ELSE Head(ss) \o Concat(Tail(ss))

SeedWords == 8          \* the 64-byte seed
ParmsId == Rep(8, 4)

CtHeader(sh) == ParmsId \o <<8, 1>> \o (IF sh.scheme = "bfv" THEN <<>> ELSE <<8>>)

\* residues of `count` coefficients per modulus, written byte by byte
Residues(limits, count) == Concat([j \in 1..Len(limits) |-> Rep(1, count * limits[j])])

CtLayout(sh) ==
  CASE sh.fmt = "compact" ->
         CtHeader(sh) \o <<1>>
         \o (IF sh.seeded THEN Residues(sh.limits, sh.n) \o Rep(8, SeedWords)
             ELSE Concat([p \in 1..sh.size |-> Residues(sh.limits, sh.n)]))
    [] sh.fmt = "terms" ->
         CtHeader(sh) \o <<1>>
         \o Residues(sh.limits, sh.nterms)
         \o (IF sh.seeded THEN Rep(8, SeedWords)
             ELSE Concat([p \in 1..(sh.size - 1) |-> Residues(sh.limits, sh.n)]))
    [] sh.fmt = "full" ->
         CtHeader(sh) \o <<8>>
         \o (IF sh.seeded THEN Rep(8, Len(sh.limits) * sh.n + 1 + SeedWords)
             ELSE Rep(8, sh.size * Len(sh.limits) * sh.n))

RECURSIVE Layout(_)
Layout(sh) ==
  CASE sh.k = "ct"    -> CtLayout(sh)
    [] sh.k = "pt"    -> ParmsId \o <<8>> \o Rep(8, sh.len) \o <<8>>
    [] sh.k = "parms" -> <<1, 8, 8>> \o Rep(8, sh.nmod) \o (IF sh.scheme = "ckks" THEN <<>> ELSE <<8>>) \o <<1>>
    [] sh.k = "vec"   -> <<8>> \o Concat([i \in 1..Len(sh.items) |-> Layout(sh.items[i])])
    [] sh.k = "ksk"   -> ParmsId \o <<8>> \o Concat([i \in 1..Len(sh.keys) |->
                            <<8>> \o Concat([j \in 1..Len(sh.keys[i]) |-> Layout(sh.keys[i][j])])])
    [] sh.k = "poly"  -> ParmsId \o Residues(sh.limits, sh.n)
    [] sh.k = "cat"   -> Concat([i \in 1..Len(sh.items) |-> Layout(sh.items[i])])

Size(sh) == SumSeq(Layout(sh))

\* run-length encoding <<width, count>>, the form in which the harness records write calls: the recorded runs must be
\* canonical (positive counts, adjacent runs of different width) and expand to the layout
Expand(rle) == Concat([i \in 1..Len(rle) |-> Rep(rle[i][1], rle[i][2])])
CanonicalRle(rle) == /\ \A i \in 1..Len(rle) : rle[i][2] > 0
                     /\ \A i \in 1..(Len(rle) - 1) : rle[i][1] # rle[i+1][1]
RleIs(rle, s) == CanonicalRle(rle) /\ Expand(rle) = s

(***************************************************************************)
(* What one recorded serialization event must satisfy (C14)                *)
(***************************************************************************)
SerEventOk(e) ==
  /\ RleIs(e.rle, Layout(e.shape))        \* the bytes are written field by field in the grammar's order
  /\ e.announced = Size(e.shape)           \* serialized_size
  /\ e.returned = e.announced              \* the count returned by serialize
  /\ e.written = e.announced               \* bytes that reached the sink
  /\ e.consumed = e.announced              \* bytes deserialize read back
  /\ e.roundtrip                           \* deserialized object equals the (seed-expanded) original, same context
  /\ e.roundtrip_other                     \* ... and in a context rebuilt from the serialized parameters
  /\ e.concat                              \* two objects in one stream are recovered independently
  /\ e.interchange                         \* restored object usable in a follow-up operation with the same result

=============================================================================
