SPECIFICATION TSpec
CONSTANTS
  RN = 8
  RT = 17
INVARIANT Report
INVARIANT AllHold
CHECK_DEADLOCK FALSE
