-------------------------------- MODULE Chain --------------------------------
(***************************************************************************)
(* The to-target loops of the evaluator (property C05): mod_switch_to,     *)
(* mod_switch_plain_to and rescale_to move an object down the modulus      *)
(* chain by repeating the to-next step until the requested level is        *)
(* reached.  HE.tla gives the call as one action (its result); this module *)
(* models the loop the code executes, so that "terminates" is a temporal   *)
(* property TLC checks instead of an assumption.                           *)
(*                                                                         *)
(* Levels are chain indices: NL-1 is the first level, 0 the last.  One     *)
(* call has a source object at level src (never written), a destination    *)
(* object (Unset until the call writes it) and a target level.             *)
(*                                                                         *)
(* CondReads names which object the loop condition and the loop body read: *)
(*   "destination" - the design (and the code after fix 7683553): refuse   *)
(*        upward targets, copy the source into the destination, then       *)
(*        switch the destination down while its level differs from target; *)
(*   "source"      - the rescale_to loop of the pinned commit:             *)
(*        while source.level # target { destination := next(source) }      *)
(*        which never makes progress and never writes the destination when *)
(*        the source is already on the target.  TLC refutes Terminates and *)
(*        EndsOnTarget for it (bin/check demands those counterexamples).   *)
(***************************************************************************)
EXTENDS Naturals

CONSTANTS NL, CondReads
ASSUME NL \in Nat \ {0} /\ CondReads \in {"destination", "source"}

VARIABLES src, target, dst, pc, refused, iters
vars == <<src, target, dst, pc, refused, iters>>

Levels == 0..(NL-1)
Unset == NL

Init == /\ src \in Levels /\ target \in Levels
        /\ dst = Unset /\ pc = "check" /\ refused = FALSE /\ iters = 0

\* entry: argument check and initial copy
Check ==
  /\ pc = "check"
  /\ IF CondReads = "destination"
     THEN IF target > src
          THEN refused' = TRUE /\ pc' = "done" /\ UNCHANGED dst
          ELSE dst' = src /\ pc' = "loop" /\ UNCHANGED refused
     ELSE pc' = "loop" /\ UNCHANGED <<dst, refused>>
  /\ UNCHANGED <<src, target, iters>>

Read == IF CondReads = "destination" THEN dst ELSE src

\* one evaluation of the loop condition, and the body (one to-next step) when it holds
Loop ==
  /\ pc = "loop"
  /\ IF Read # target
     THEN IF Read = 0
          THEN refused' = TRUE /\ pc' = "done" /\ UNCHANGED <<dst, iters>>      \* to-next on the last level refuses
          ELSE /\ dst' = Read - 1 /\ UNCHANGED <<pc, refused>>
               /\ iters' = IF CondReads = "destination" THEN iters + 1 ELSE iters   \* (counting the idle loop would hide that it makes no progress)
     ELSE pc' = "done" /\ UNCHANGED <<dst, refused, iters>>
  /\ UNCHANGED <<src, target>>

Next == Check \/ Loop
Spec == Init /\ [][Next]_vars /\ WF_vars(Check) /\ WF_vars(Loop)

(***************************************************************************)
(* Properties                                                              *)
(***************************************************************************)
TypeOk == /\ src \in Levels /\ target \in Levels /\ dst \in Levels \cup {Unset}
          /\ pc \in {"check", "loop", "done"} /\ refused \in BOOLEAN
Terminates    == <>(pc = "done")
EndsOnTarget  == (pc = "done" /\ ~refused) => dst = target            \* in particular the destination was written
RefusesUpward == (pc = "done" /\ target > src) => refused
OnlyDownward  == dst # Unset => dst <= src
NoSpuriousRefusal == (pc = "done" /\ target <= src) => ~refused
StepCount     == (pc = "done" /\ ~refused) => iters = src - target    \* one to-next step per level, no more
=============================================================================
