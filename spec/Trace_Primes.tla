---------------------------- MODULE Trace_Primes ----------------------------
EXTENDS Primes, Json, IOUtils, TLC
Rec == ndJsonDeserialize(IOEnv.TRACE)
VARIABLES l, bad
TInit == l = 1 /\ bad = <<>>
TNext == /\ l <= Len(Rec) /\ l' = l + 1
         /\ bad' = IF PrimesEventOk(Rec[l]) THEN bad ELSE Append(bad, <<l, 1>>)
TSpec == TInit /\ [][TNext]_<<l, bad>>
Done == l = Len(Rec) + 1
Report == Done => PrintT(<<"BAD", ToJson([bad |-> bad, lines |-> Len(Rec)])>>)
AllHold == Done => bad = <<>>
=============================================================================
