--------------------------------- MODULE Ckks ---------------------------------
(***************************************************************************)
(* CKKS encoding (property C12).                                           *)
(*                                                                         *)
(* A plaintext holds, in every RNS component, the residues of ONE integer  *)
(* coefficient vector x (centred, far below the modulus).  For the         *)
(* coefficient-wise entry points the vector is the rounded scaled input:   *)
(*    x_j = round(v_j * scale)                                             *)
(* where v_j and scale are IEEE doubles, i.e. exact dyadic rationals       *)
(* (-1)^neg * mant * 2^exp; the library may form the product in double     *)
(* precision first, so a relative deviation of 2^-51 (plus 1) is allowed.  *)
(*   i64 single   : x_0 = v, every other coefficient 0 (scale 1)           *)
(*   f64 single   : x_0 = round(v*scale), every other coefficient 0        *)
(*   coefficient list : x_j = round(v_j*scale), the rest 0                 *)
(*   vector / complex single : x = rounded scaled preimage under the       *)
(*     canonical embedding; checked exactly on the structured inputs whose *)
(*     preimage is a monomial (constant vectors -> c, the vector           *)
(*     v*(i,-i,i,..) in the library's slot order -> v*X^(N/2)) with an FFT *)
(*     allowance of 2^-40 relative, and for N = 2 where the roots are +-i. *)
(* Decoding returns the input within the stated deviation (recorded as an  *)
(* integer number of 2^-20 units).  Inputs whose scaled magnitude is at    *)
(* least the modulus, and scales <= 0 or >= the modulus, must be refused.  *)
(* For every degree the embedding must also be multiplicative (products of *)
(* encodings decode to slot-wise products), which round trips cannot show. *)
(***************************************************************************)
EXTENDS Rns

\* |a - b| for signed numbers given as <<neg, mag>>
SAbsDiff(an, am, bn, bm) ==
  IF an = bn THEN (IF BLe(am, bm) THEN BSub(bm, am) ELSE BSub(am, bm)) ELSE BAdd(am, bm)
SZero(m) == BIsZero(m)

\* round(mv * ms * 2^e) to nearest, ties away from zero; sh = <<quo, rem>> is the hint for the right shift when e < 0
ScaledRound(mv, ms, e, sh) ==
  LET P == BMul(mv, ms) IN
  IF e >= 0 THEN [ok |-> TRUE, val |-> BMul(P, BPow2(e))]
  ELSE LET D == BPow2(0 - e) IN
       [ok |-> DivModCert(P, D, sh[1], sh[2]),
        val |-> IF BLe(D, BMulLimb(sh[2], 2)) THEN BAdd(sh[1], BOne) ELSE sh[1]]

\* closeness: |x - X| * 2^k <= |X| + 2^k
CloseRel(xn, xm, en, em, k) ==
  BLe(BMul(SAbsDiff(xn, xm, en, em), BPow2(k)), BAdd(em, BPow2(k)))

\* the residues of coefficient j in every component are those of the signed integer <<neg, mag>>
ResiduesOf(neg, mag, q, r, h) == \A i \in 1..Len(q) : ModSigned(neg, mag, q[i], h[i], r[i])

CoefOk(e, j) ==
  LET c == e.coef[j] IN       \* c = [neg, mag, r (residues), h (hints), kind, inp (index into e.inputs or 0), sh]
  /\ ResiduesOf(c.neg, c.mag, e.q, c.r, c.h)
  /\ BLt(BMulLimb(c.mag, 2), e.Q)                      \* one centred integer
  /\ CASE c.kind = "zero"   -> BIsZero(c.mag)
       [] c.kind = "small"  -> BLe(BMul(c.mag, BPow2(40)), BAdd(e.ref, BPow2(40)))   \* FFT noise relative to the largest coefficient
       [] c.kind = "scaled" ->
            LET v == e.inputs[c.inp]
                sr == ScaledRound(v.mant, e.scale.mant, v.exp + e.scale.exp, c.sh)
            IN sr.ok /\ CloseRel(c.neg, c.mag, v.neg, sr.val, IF e.fft THEN 40 ELSE 51)
       [] c.kind = "any" -> TRUE

\* The embedding is multiplicative (any degree): the product polynomial of two encodings, formed by the harness, decodes to the
\* slot-wise product of the encoded Gaussian-integer vectors; slots in units of 2^-10, tolerance e.tol units
AbsC(a) == IF a < 0 THEN 0 - a ELSE a
EmbedMulOk(e) ==
  /\ Len(e.got) = Len(e.exp) /\ Len(e.exp) = e.n \div 2
  /\ \A i \in 1..Len(e.exp) : AbsC(e.got[i][1] - e.exp[i][1]) <= e.tol /\ AbsC(e.got[i][2] - e.exp[i][2]) <= e.tol

CkksEventOk(e) ==
  IF e.ev = "ckks_mul" THEN EmbedMulOk(e) ELSE
  IF e.must_refuse THEN e.refused
  ELSE IF e.may_refuse THEN TRUE                        \* close to the limits: refusing or computing are both allowed, nothing is demanded
  ELSE /\ ~e.refused
       /\ \A j \in 1..Len(e.coef) : CoefOk(e, j)
       /\ e.dec_dev <= e.dec_tol                         \* decode(encode(v)) = v within the allowance (2^-20 units)
       /\ e.scale_kept                                   \* the plaintext records the scale it was encoded with
       /\ e.level_ok                                     \* ... and the requested level
===============================================================================
