------------------------------ MODULE BlakeRng ------------------------------
(***************************************************************************)
(* The seeded generator (property C16).  The output of a generator with    *)
(* seed s is the byte stream S(s) = B_0 \o B_1 \o ..., B_c being the first *)
(* 4096 bytes of BLAKE3-XOF(s \o le64(c)).  The state is the absolute      *)
(* position p in S.  fill_bytes(n) returns S[p, p+n); next_u32 / next_u64  *)
(* first align p up to a multiple of 4 / 8 and return the next 4 / 8 bytes *)
(* (little endian).  The internal 4096-byte buffer and its refills are not *)
(* visible.  Hence the concatenation of all results is a function of the   *)
(* seed alone, independent of how reads are chunked.                       *)
(*                                                                         *)
(* Part 2: freshness and sample well-formedness as predicates on recorded  *)
(* events.                                                                 *)
(***************************************************************************)
EXTENDS Integers, Sequences, FiniteSets, TLC

CONSTANTS Sizes,     \* fill_bytes sizes explored
          MaxPos     \* exploration bound on the stream position

VARIABLES p, hist
vars == <<p, hist>>

AlignUp(x, a) == ((x + a - 1) \div a) * a

Init == p = 0 /\ hist = <<>>
Fill(n) == /\ p + n <= MaxPos
           /\ p' = p + n
           /\ hist' = Append(hist, [op |-> "fill", n |-> n, from |-> p, to |-> p + n])
U32 == /\ AlignUp(p, 4) + 4 <= MaxPos
       /\ p' = AlignUp(p, 4) + 4
       /\ hist' = Append(hist, [op |-> "u32", n |-> 4, from |-> AlignUp(p, 4), to |-> AlignUp(p, 4) + 4])
U64 == /\ AlignUp(p, 8) + 8 <= MaxPos
       /\ p' = AlignUp(p, 8) + 8
       /\ hist' = Append(hist, [op |-> "u64", n |-> 8, from |-> AlignUp(p, 8), to |-> AlignUp(p, 8) + 8])
Next == (\E n \in Sizes : Fill(n)) \/ U32 \/ U64
Spec == Init /\ [][Next]_vars

\* results never overlap and only skip alignment gaps: the stream is consumed monotonically
Monotone == \A i \in 1..Len(hist) : /\ hist[i].from <= hist[i].to
                                    /\ (i > 1 => hist[i].from >= hist[i-1].to /\ hist[i].from - hist[i-1].to < 8)
\* chunking independence of byte reads: a run of fill calls covers exactly a contiguous range
FillContiguous == \A i \in 2..Len(hist) : hist[i].op = "fill" => hist[i].from = hist[i-1].to

(***************************************************************************)
(* Part 2: recorded histories                                              *)
(***************************************************************************)
\* every drawn mask / stored seed (given by a digest) is new; equal explicit generator states give equal masks
RECURSIVE FreshFrom(_, _, _, _)
FreshFrom(evs, i, seen, explicit) ==
  IF i > Len(evs) THEN TRUE
  ELSE LET e == evs[i] IN
    CASE e.k = "draw" -> e.digest \notin seen /\ FreshFrom(evs, i+1, seen \cup {e.digest}, explicit)
      [] e.k = "explicit" ->
           (IF e.state \in DOMAIN explicit THEN explicit[e.state] = e.digest ELSE TRUE)
           /\ FreshFrom(evs, i+1, seen, [s \in DOMAIN explicit \cup {e.state} |-> IF s = e.state THEN e.digest ELSE explicit[s]])
      [] OTHER -> FALSE
HistoryFresh(evs) == FreshFrom(evs, 1, {}, <<>>)

\* sampled polynomials: residues given per RNS component (moduli below 2^31)
Centered(r, q) == IF r > q \div 2 THEN r - q ELSE r
SmallSame(poly, moduli, bound) ==
  \A c \in 1..Len(poly[1]) :
     LET v == Centered(poly[1][c], moduli[1])
     IN /\ v >= 0 - bound /\ v <= bound
        /\ \A j \in 1..Len(moduli) : poly[j][c] < moduli[j] /\ Centered(poly[j][c], moduli[j]) = v
UniformOk(poly, moduli) == \A j \in 1..Len(moduli) : \A c \in 1..Len(poly[j]) : poly[j][c] >= 0 /\ poly[j][c] < moduli[j]
SampleOk(e) ==
  CASE e.k = "ternary" -> SmallSame(e.poly, e.moduli, 1)
    [] e.k = "error"   -> SmallSame(e.poly, e.moduli, 21)
    [] e.k = "uniform" -> UniformOk(e.poly, e.moduli)
\* empirical frequencies against the specified pmf: |count * den - total * num| <= tol  (integers supplied with the event)
FreqOk(e) == \A i \in 1..Len(e.counts) :
               LET d == e.counts[i] * e.den - e.total * e.nums[i]
               IN d <= e.tol /\ 0 - d <= e.tol
=============================================================================
