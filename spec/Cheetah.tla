------------------------------- MODULE Cheetah -------------------------------
(***************************************************************************)
(* Refinement model of the coefficient-packing matrix product              *)
(* (src/app/matmul/cheetah.rs, property C20).  MatMul.tla states WHAT the  *)
(* helper computes (Y = XW mod t); this module states HOW: the block       *)
(* search, the three coefficient index maps and the block-wise polynomial  *)
(* products, and TLC checks that the HOW computes the WHAT for every shape *)
(* up to MaxDim at degree N.                                               *)
(*                                                                         *)
(*   X : B x I   (batch x input),   W : I x O,   Y = XW : B x O            *)
(*   blocks (b, i, o) with b*i*o <= N, chosen by Search;                   *)
(*   input  block (r,c): coefficient (x-r*b)*i*o + (k-c*i)       <- X[x][k] *)
(*   weight block (c,d): coefficient (y-d*o)*i + i-1 - (k-c*i)   <- W[k][y] *)
(*   output block (r,d): Y[x][y] <- coefficient (x-r*b)*i*o+(y-d*o)*i+i-1   *)
(*   of  SUM_c  input(r,c) * weight(c,d)   in Z[X]/(X^N+1).                *)
(*                                                                         *)
(* The product is bilinear in (X, W), so checking every pair of unit       *)
(* matrices decides it for all matrices.  Matrices are 0-based functions.  *)
(***************************************************************************)
EXTENDS Integers, Sequences, FiniteSets

CONSTANTS N, MaxDim
Objectives == {"CipherPlain", "PlainCipher", "CpAddPc"}

CeilDiv(a, b) == (a + b - 1) \div b
Min(a, b) == IF a < b THEN a ELSE b

(***************************************************************************)
(* Block search, transcribed from MatmulHelper::new (pack_lwe = false):    *)
(* candidates in the order the loops visit them, the first strictly        *)
(* cheaper one wins, a batch block is skipped when 2*ceil(B/b) exceeds the *)
(* best cost so far.                                                       *)
(***************************************************************************)
Cost(obj, bc, ic, oc) ==
  CASE obj = "CipherPlain" -> bc * (ic + oc)
    [] obj = "PlainCipher" -> (bc + ic) + oc
    [] OTHER               -> bc * ic + ic * oc + bc * oc
Inf == 1000000
\* state of the search: <<b_best, i_best, o_best, c_best>>
RECURSIVE ScanI(_, _, _, _, _, _, _)
ScanI(B, I, O, obj, b, i, best) ==
  IF i >= N \div b \/ i > I THEN best
  ELSE LET o0 == (N \div b) \div i
           o  == Min(o0, O)
       IN IF o < 1 THEN ScanI(B, I, O, obj, b, i + 1, best)
          ELSE LET c == Cost(obj, CeilDiv(B, b), CeilDiv(I, i), CeilDiv(O, o))
               IN ScanI(B, I, O, obj, b, i + 1, IF c >= best[4] THEN best ELSE <<b, i, o, c>>)
RECURSIVE ScanB(_, _, _, _, _, _)
ScanB(B, I, O, obj, b, best) ==
  IF b < 1 THEN best
  ELSE IF b > N \/ CeilDiv(B, b) * 2 > best[4] THEN ScanB(B, I, O, obj, b - 1, best)
  ELSE ScanB(B, I, O, obj, b - 1, ScanI(B, I, O, obj, b, 1, best))
Search(B, I, O, obj) == ScanB(B, I, O, obj, B, <<0, 0, 0, Inf>>)

(***************************************************************************)
(* Polynomials of Z[X]/(X^N+1) as functions 0..N-1 -> Int                  *)
(***************************************************************************)
Idx == 0..(N-1)
PZero == [k \in Idx |-> 0]
PAddP(p, q) == [k \in Idx |-> p[k] + q[k]]
RECURSIVE SumOver(_, _)
SumOver(f, S) == IF S = {} THEN 0 ELSE LET x == CHOOSE x \in S : TRUE IN f[x] + SumOver(f, S \ {x})
\* negacyclic product: coefficient k collects p[u]*q[k-u] and -p[u]*q[N+k-u]
PMulN(p, q) == [k \in Idx |-> SumOver([u \in Idx |-> IF u <= k THEN p[u] * q[k-u] ELSE 0 - p[u] * q[N+k-u]], Idx)]

(***************************************************************************)
(* The three index maps                                                    *)
(***************************************************************************)
InIdx(x, k, r, c, bl)  == (x - r * bl[1]) * bl[2] * bl[3] + (k - c * bl[2])
WtIdx(k, y, c, d, bl)  == (y - d * bl[3]) * bl[2] + bl[2] - 1 - (k - c * bl[2])
OutIdx(x, y, r, d, bl) == (x - r * bl[1]) * bl[2] * bl[3] + (y - d * bl[3]) * bl[2] + bl[2] - 1

RowsOf(r, B, bl) == {x \in 0..(B-1) : x \div bl[1] = r}
InsOf(c, I, bl)  == {k \in 0..(I-1) : k \div bl[2] = c}
OutsOf(d, O, bl) == {y \in 0..(O-1) : y \div bl[3] = d}

EncodeInput(X, r, c, B, I, bl) ==
  [p \in Idx |-> SumOver([xk \in RowsOf(r, B, bl) \X InsOf(c, I, bl) |-> IF InIdx(xk[1], xk[2], r, c, bl) = p THEN X[xk[1]][xk[2]] ELSE 0],
                         RowsOf(r, B, bl) \X InsOf(c, I, bl))]
EncodeWeight(W, c, d, I, O, bl) ==
  [p \in Idx |-> SumOver([ky \in InsOf(c, I, bl) \X OutsOf(d, O, bl) |-> IF WtIdx(ky[1], ky[2], c, d, bl) = p THEN W[ky[1]][ky[2]] ELSE 0],
                         InsOf(c, I, bl) \X OutsOf(d, O, bl))]

RECURSIVE BlockSum(_, _, _, _, _, _, _, _, _)
BlockSum(X, W, r, d, c, B, I, O, bl) ==     \* SUM over input blocks c' <= c
  IF c < 0 THEN PZero
  ELSE PAddP(BlockSum(X, W, r, d, c - 1, B, I, O, bl),
             PMulN(EncodeInput(X, r, c, B, I, bl), EncodeWeight(W, c, d, I, O, bl)))
Decoded(X, W, B, I, O, bl) ==
  [x \in 0..(B-1) |-> [y \in 0..(O-1) |->
      LET r == x \div bl[1]  d == y \div bl[3]
      IN BlockSum(X, W, r, d, CeilDiv(I, bl[2]) - 1, B, I, O, bl)[OutIdx(x, y, r, d, bl)]]]

(***************************************************************************)
(* What: the matrix product                                                *)
(***************************************************************************)
MatProd(X, W, B, I, O) ==
  [x \in 0..(B-1) |-> [y \in 0..(O-1) |-> SumOver([k \in 0..(I-1) |-> X[x][k] * W[k][y]], 0..(I-1))]]
Unit(R, C, a, b) == [x \in 0..(R-1) |-> [y \in 0..(C-1) |-> IF x = a /\ y = b THEN 1 ELSE 0]]

(***************************************************************************)
(* The checked statements (evaluated by TLC as a property of a one-state   *)
(* specification, for every shape up to MaxDim and every objective)        *)
(***************************************************************************)
Shapes == (1..MaxDim) \X (1..MaxDim) \X (1..MaxDim)
BlocksOk(sh, obj) ==
  LET bl == Search(sh[1], sh[2], sh[3], obj) IN
  /\ bl[1] >= 1 /\ bl[2] >= 1 /\ bl[3] >= 1                          \* a block triple is found
  /\ bl[1] <= sh[1] /\ bl[2] <= sh[2] /\ bl[3] <= sh[3]
  /\ bl[1] * bl[2] * bl[3] <= N                                      \* one block fits one polynomial
IndexMapsOk(sh, obj) ==
  LET B == sh[1]  I == sh[2]  O == sh[3]
      bl == Search(B, I, O, obj)
  IN \* the maps stay inside the polynomial and are injective on a block
     /\ \A x \in 0..(B-1), k \in 0..(I-1) : InIdx(x, k, x \div bl[1], k \div bl[2], bl) \in Idx
     /\ \A k \in 0..(I-1), y \in 0..(O-1) : WtIdx(k, y, k \div bl[2], y \div bl[3], bl) \in Idx
     /\ \A x \in 0..(B-1), y \in 0..(O-1) : OutIdx(x, y, x \div bl[1], y \div bl[3], bl) \in Idx
ProductOk(sh, obj) ==
  LET B == sh[1]  I == sh[2]  O == sh[3]
      bl == Search(B, I, O, obj)
  IN \A a \in 0..(B-1), k1 \in 0..(I-1), k2 \in 0..(I-1), y \in 0..(O-1) :
        LET X == Unit(B, I, a, k1)  W == Unit(I, O, k2, y)
        IN Decoded(X, W, B, I, O, bl) = MatProd(X, W, B, I, O)

\* The same statement evaluated on monomials: the encodings of unit matrices are monomials X^p and X^q, their product is
\* +-X^((p+q) mod N) and only meets blocks (r, d) when both lie in the same input block.  (ProductOk evaluates the
\* definitions above without this shortcut; the two are compared on the shapes where ProductOk is affordable.)
UnitOk(sh, obj) ==
  LET B == sh[1]  I == sh[2]  O == sh[3]
      bl == Search(B, I, O, obj)
  IN \A a \in 0..(B-1), k1 \in 0..(I-1), k2 \in 0..(I-1), y \in 0..(O-1) :
        LET r == a \div bl[1]  c == k1 \div bl[2]  c2 == k2 \div bl[2]  d == y \div bl[3]
            s == InIdx(a, k1, r, c, bl) + WtIdx(k2, y, c2, d, bl)
            pos == s % N
            sgn == IF s < N THEN 1 ELSE 0 - 1
        IN \A x2 \in RowsOf(r, B, bl), y2 \in OutsOf(d, O, bl) :
              (IF c = c2 /\ pos = OutIdx(x2, y2, r, d, bl) THEN sgn ELSE 0)
                 = (IF x2 = a /\ y2 = y /\ k1 = k2 THEN 1 ELSE 0)

VARIABLE done
Init == done = FALSE
Next == done' = TRUE
Spec == Init /\ [][Next]_done
\* (state-level on purpose: TLC evaluates constant-level definitions eagerly at start-up; evaluated in the successor state,
\*  i.e. by a worker thread, whose stack size -Xss controls - the initial state is evaluated on the small main-thread stack)
AllBlocksOk   == done => \A sh \in Shapes, obj \in Objectives : BlocksOk(sh, obj)
AllIndexOk    == done => \A sh \in Shapes, obj \in Objectives : IndexMapsOk(sh, obj)
AllUnitsOk    == done => \A sh \in Shapes, obj \in Objectives : UnitOk(sh, obj)
AllProductsOk == done => \A sh \in Shapes, obj \in Objectives : ProductOk(sh, obj)
=============================================================================
