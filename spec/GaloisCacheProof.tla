-------------------------- MODULE GaloisCacheProof --------------------------
(***************************************************************************)
(* Unbounded safety of the permutation-table cache design (GaloisCache.tla,*)
(* C17): for ANY set of threads and ANY call sequences, no use phase sees  *)
(* a missing table and no table is ever cleared.  Checked by tlapm.        *)
(***************************************************************************)
EXTENDS GaloisCache, TLAPS

ASSUME Assumptions == Calls \in [Threads -> Seq(Slots)]

PCs == {"before_check", "before_generate", "before_use", "done"}

TypeOK == /\ tbl \in [Slots -> BOOLEAN]
          /\ pc \in [Threads -> PCs]
          /\ ci \in [Threads -> Nat]
          /\ \A t \in Threads : pc[t] # "done" => ci[t] \in 1..Len(Calls[t])

IInv == /\ TypeOK
        /\ bad = {}
        /\ \A t \in Threads : pc[t] = "before_use" => tbl[Cur(t)]

LEMMA CurSlot == ASSUME TypeOK, NEW t \in Threads, pc[t] # "done" PROVE Cur(t) \in Slots
  BY Assumptions DEF TypeOK, Cur

THEOREM InitInv == Init => IInv
  BY Assumptions DEF Init, IInv, TypeOK, PCs

THEOREM StepInv == IInv /\ [Next]_vars => IInv' /\ (\A e \in Slots : tbl[e] => tbl'[e])
<1> SUFFICES ASSUME IInv, [Next]_vars PROVE IInv' /\ (\A e \in Slots : tbl[e] => tbl'[e])
  OBVIOUS
<1>1. CASE UNCHANGED vars
  BY <1>1 DEF IInv, TypeOK, vars, Cur
<1>2. ASSUME NEW t \in Threads, Check(t) PROVE IInv' /\ (\A e \in Slots : tbl[e] => tbl'[e])
  <2>1. Cur(t) \in Slots
    BY <1>2, CurSlot DEF IInv, Check
  <2> QED
    BY <1>2, <2>1, Assumptions DEF IInv, TypeOK, PCs, Check, Cur
<1>3. ASSUME NEW t \in Threads, Generate(t) PROVE IInv' /\ (\A e \in Slots : tbl[e] => tbl'[e])
  <2>1. Cur(t) \in Slots
    BY <1>3, CurSlot DEF IInv, Generate
  <2>2. \A u \in Threads : pc[u] # "done" => Cur(u) \in Slots
    BY CurSlot DEF IInv
  <2> QED
    BY <1>3, <2>1, <2>2, Assumptions DEF IInv, TypeOK, PCs, Generate, Cur
<1>4. ASSUME NEW t \in Threads, Use(t) PROVE IInv' /\ (\A e \in Slots : tbl[e] => tbl'[e])
  <2>1. Cur(t) \in Slots /\ tbl[Cur(t)]
    BY <1>4, CurSlot DEF IInv, Use
  <2>2. Len(Calls[t]) \in Nat /\ ci[t] \in 1..Len(Calls[t])
    BY <1>4, Assumptions DEF IInv, TypeOK, Use
  <2> QED
    BY <1>4, <2>1, <2>2, Assumptions DEF IInv, TypeOK, PCs, Use, Cur
<1> QED
  BY <1>1, <1>2, <1>3, <1>4 DEF Next, Step

THEOREM Safety == Spec => [](UseSeesTable) /\ NeverCleared
<1>1. Init /\ [][Next]_vars => []IInv
  BY InitInv, StepInv, PTL
<1>2. IInv => UseSeesTable
  BY DEF IInv, UseSeesTable
<1>3. Init /\ [][Next]_vars => [][\A e \in Slots : tbl[e] => tbl'[e]]_vars
  BY <1>1, StepInv, PTL
<1> QED
  BY <1>1, <1>2, <1>3, PTL DEF Spec, NeverCleared
=============================================================================
