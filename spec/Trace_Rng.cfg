SPECIFICATION TSpec
CONSTANTS
  Sizes = {}
  MaxPos = 0
INVARIANT Report
INVARIANT AllHold
CHECK_DEADLOCK FALSE
