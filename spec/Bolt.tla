-------------------------------- MODULE Bolt --------------------------------
(***************************************************************************)
(* Refinement model of the three BOLT matrix-product helpers               *)
(* (src/app/matmul/bolt_cp.rs, bolt_cc_cr.rs, bolt_cc_dc.rs, property C20).*)
(* MatMul.tla states WHAT they compute (the matrix product); this module   *)
(* states HOW: the slot layouts of the operands, the rotation / mask /     *)
(* rotate-and-sum programs over slot vectors, the read-out positions and   *)
(* the blocking of large operands - and TLC checks that the HOW computes   *)
(* the WHAT.  All three programs are bilinear in (a, b), so pairs of unit  *)
(* matrices decide them.                                                   *)
(*                                                                         *)
(* A slot vector is a function 0..N-1 -> Int in the batch encoder's matrix *)
(* view: two rows of H = N/2 slots; rotate_rows(v, s) rotates both rows    *)
(* left by s, rotate_columns swaps them (Plain.tla, bound to the real      *)
(* evaluator by C04); multiply / multiply_plain are slot-wise.             *)
(* a is m x r, b is r x n, c = a*b is m x n, all 0-based functions.        *)
(***************************************************************************)
EXTENDS Integers, Sequences, FiniteSets

CONSTANTS N,                    \* polynomial degree = number of slots
          MaxM, MaxR, MaxN      \* shapes explored
H == N \div 2
Slots == 0..(N-1)
CeilDiv(a, b) == (a + b - 1) \div b
Min(a, b) == IF a < b THEN a ELSE b
Max(a, b) == IF a > b THEN a ELSE b
RECURSIVE P2(_, _)
P2(m, p) == IF p >= m THEN p ELSE P2(m, 2 * p)
Pow2Ceil(m) == P2(m, 1)                 \* ceil_two_power

VZero == [p \in Slots |-> 0]
VAdd(u, v) == [p \in Slots |-> u[p] + v[p]]
VMul(u, v) == [p \in Slots |-> u[p] * v[p]]
RotRows(v, s) == [p \in Slots |-> IF p < H THEN v[(p + s) % H] ELSE v[H + ((p - H + s) % H)]]
ColSwap(v) == [p \in Slots |-> v[(p + H) % N]]
MaskV(lo, hi) == [p \in Slots |-> IF p >= lo /\ p < hi THEN 1 ELSE 0]
RECURSIVE VSum(_)
VSum(s) == IF Len(s) = 0 THEN VZero ELSE VAdd(Head(s), VSum(Tail(s)))
MaxOf(S) == CHOOSE x \in S : \A y \in S : y <= x

(***************************************************************************)
(* 1. bolt_cp: [a] * b, a column-major in gaps of g = 2^ceil(log m) slots  *)
(*    (s = N/g columns per ciphertext), b as IR*OR families of generalized *)
(*    diagonals; baby-step (IR input rotations) / giant-step (OR output    *)
(*    rotations) schedule.  Rows beyond H go to further chunks.            *)
(***************************************************************************)
CpMs(sh) == Min(sh.m, H)
CpG(sh) == Pow2Ceil(CpMs(sh))
CpS(sh) == N \div CpG(sh)
CpIC(sh) == CeilDiv(sh.r, CpS(sh))
CpOC(sh) == CeilDiv(sh.n, CpS(sh))
CpChunks(sh) == CeilDiv(sh.m, CpMs(sh))
RECURSIVE CpSearch(_, _, _, _, _, _)
CpSearch(p, s, ic, oc, best, bestp) ==      \* the first strictly cheaper power of two wins
  IF p >= s THEN bestp
  ELSE LET c == (p - 1) * ic + (s \div p - 1) * oc
       IN IF c < best THEN CpSearch(2 * p, s, ic, oc, c, p) ELSE CpSearch(2 * p, s, ic, oc, best, bestp)
CpIR(sh) == CpSearch(1, CpS(sh), CpIC(sh), CpOC(sh), 1000000, 1)
CpOR(sh) == CpS(sh) \div CpIR(sh)

\* input ciphertext j of row chunk ch
CpEncIn(A, sh, ch, j) ==
  LET g == CpG(sh)  s == CpS(sh)  ms == CpMs(sh) IN
  [p \in Slots |-> LET i == p % g  col == j * s + p \div g  row == ch * ms + i
                   IN IF i < ms /\ col < sh.r /\ row < sh.m THEN A[row][col] ELSE 0]
CpAShift(sh, rot, k) == LET hs == CpS(sh) \div 2 IN ((rot + k) % hs) + ((rot \div hs + k \div hs) % 2) * hs
CpCk(sh, orr, k) ==
  LET s == CpS(sh)  hs == s \div 2  corr == (orr * CpIR(sh)) % s
  IN ((k + corr) % hs) + ((k \div hs + corr \div hs) % 2) * hs
\* weight plaintext of (input rotation ir, output rotation orr), output i, input j: the later k overwrites
CpEncW(B, sh, ir, orr, i, j) ==
  LET g == CpG(sh)  s == CpS(sh)  rot == orr * CpIR(sh) + ir IN
  [p \in Slots |->
     LET Ks == {k \in 0..(s-1) : CpCk(sh, orr, k) = p \div g /\ j * s + CpAShift(sh, rot, k) < sh.r /\ i * s + k < sh.n}
     IN IF Ks = {} THEN 0 ELSE LET k == MaxOf(Ks) IN B[j * s + CpAShift(sh, rot, k)][i * s + k]]
RECURSIVE CpARot(_, _, _, _, _)
CpARot(A, sh, ch, j, ir) ==
  IF ir = 0 THEN CpEncIn(A, sh, ch, j)
  ELSE IF ir = CpS(sh) \div 2 THEN ColSwap(CpEncIn(A, sh, ch, j))
  ELSE RotRows(CpARot(A, sh, ch, j, ir - 1), CpG(sh))
CpPartial(A, B, sh, ch, orr, i) ==
  LET ic == CpIC(sh) IN
  VSum([q \in 1..(CpIR(sh) * ic) |-> LET ir == (q - 1) \div ic  j == (q - 1) % ic
                                     IN VMul(CpARot(A, sh, ch, j, ir), CpEncW(B, sh, ir, orr, i, j))])
CpR(sh, v) == IF CpIR(sh) * CpG(sh) < H THEN RotRows(v, CpIR(sh) * CpG(sh)) ELSE v
RECURSIVE CpFold(_, _, _, _, _, _, _, _)
CpFold(A, B, sh, ch, i, o, sum, half) ==      \* o = OR-1 down to 0; the upper half of the giant steps goes through a column swap
  IF o < 0 THEN VAdd(sum, half)
  ELSE LET s1 == VAdd(CpR(sh, sum), CpPartial(A, B, sh, ch, o, i)) IN
       IF o = CpOR(sh) \div 2 THEN CpFold(A, B, sh, ch, i, o - 1, VZero, ColSwap(s1))
       ELSE CpFold(A, B, sh, ch, i, o - 1, s1, half)
CpOut(A, B, sh, ch, i) == CpFold(A, B, sh, ch, i, CpOR(sh) - 1, VZero, VZero)
CpRead(sh, row, col) == <<row \div CpMs(sh), col \div CpS(sh), (col % CpS(sh)) * CpG(sh) + (row % CpMs(sh))>>   \* chunk, output, slot

(***************************************************************************)
(* 2. bolt_cc_cr: [a] * [b], a column-major, b row-major, blocks of        *)
(*    M = min(max(m, n), H) rows / columns; per block 2M-1 shifted         *)
(*    products, rotate-and-sum over the gaps, mask, generalized diagonals  *)
(*    of the M x M result.                                                 *)
(***************************************************************************)
CrM(sh) == Min(Max(sh.m, sh.n), H)
CrG(sh) == Pow2Ceil(CrM(sh))
CrS(sh) == CeilDiv(N, CrG(sh))
CrIC(sh) == CeilDiv(sh.r, CrS(sh))
CrEncIn(A, sh, bi, i) ==
  LET g == CrG(sh)  s == CrS(sh)  M == CrM(sh) IN
  [p \in Slots |-> LET j == p % g  col == i * s + p \div g  row == bi * M + j
                   IN IF j < M /\ col < sh.r /\ row < sh.m THEN A[row][col] ELSE 0]
CrEncW(B, sh, bj, i) ==
  LET g == CrG(sh)  s == CrS(sh)  M == CrM(sh) IN
  [p \in Slots |-> LET j == p % g  row == i * s + p \div g  col == bj * M + j
                   IN IF j < M /\ row < sh.r /\ col < sh.n THEN B[row][col] ELSE 0]
RECURSIVE GapSum(_, _)
GapSum(v, rc) == IF rc >= N THEN v ELSE GapSum(VAdd(v, IF rc < H THEN RotRows(v, rc) ELSE ColSwap(v)), 2 * rc)
CrShifted(A, B, sh, bi, bj, rot) ==      \* sum over the input ciphertexts of rot(b_i) * a_i, summed over the gaps
  GapSum(VSum([q \in 1..CrIC(sh) |-> VMul(RotRows(CrEncW(B, sh, bj, q - 1), rot), CrEncIn(A, sh, bi, q - 1))]), CrG(sh))
CrOut(A, B, sh, bi, bj, o) ==
  LET g == CrG(sh)  s == CrS(sh)  M == CrM(sh)
      shifts == {x \in 0..(M-1) : x \div s = o}
      term(x) == LET sl == (x % s) * g IN
                 VAdd(VMul(CrShifted(A, B, sh, bi, bj, x), MaskV(sl, sl + M - x)),
                      IF x = 0 THEN VZero ELSE VMul(CrShifted(A, B, sh, bi, bj, 0 - (M - x)), MaskV(sl + M - x, sl + M)))
  IN VSum([q \in 1..Cardinality(shifts) |-> term(o * s + q - 1)])
\* element (row, col) of the result is read from block (row \div M, col \div M), generalized diagonal (col - row) mod M
CrRead(sh, row, col) ==
  LET M == CrM(sh)  i == row % M  x == ((col % M) - i) % M
  IN <<row \div M, col \div M, x \div CrS(sh), (x % CrS(sh)) * CrG(sh) + i>>                         \* block row, block column, output, slot

(***************************************************************************)
(* 3. bolt_cc_dc: [a] * [b], a by generalized diagonals, b column-major,   *)
(*    blocks of M = min(max(m, r), H); per block and output ciphertext     *)
(*    2M-1 products of a rotated b with a masked diagonal of a spread over *)
(*    all gaps.                                                            *)
(***************************************************************************)
DcM(sh) == Min(Max(sh.m, sh.r), H)
DcG(sh) == Pow2Ceil(DcM(sh))
DcS(sh) == CeilDiv(N, DcG(sh))
DcAC(sh) == CeilDiv(DcM(sh), DcS(sh))        \* ciphertexts per block of a
DcOC(sh) == CeilDiv(sh.n, DcS(sh))
DcBR(sh) == CeilDiv(sh.m, DcM(sh))           \* row blocks of a
DcBC(sh) == CeilDiv(sh.r, DcM(sh))           \* column blocks of a = row blocks of b
\* (the loop runs k over the whole gap: slots with k >= M hold rows of the next block; no mask ever selects them)
DcEncIn(A, sh, bi, bj, i) ==
  LET g == DcG(sh)  s == DcS(sh)  M == DcM(sh) IN
  [p \in Slots |-> LET j == p \div g  k == p % g  y == bi * M + k  x == bj * M + ((i * s + k + j) % M)
                   IN IF y < sh.m /\ x < sh.r THEN A[y][x] ELSE 0]
DcEncW(B, sh, bj, i) ==
  LET g == DcG(sh)  s == DcS(sh)  M == DcM(sh) IN
  [p \in Slots |-> LET k == p % g  col == i * s + p \div g  y == bj * M + k
                   IN IF k < M /\ col < sh.n /\ y < sh.r THEN B[y][col] ELSE 0]
RECURSIVE SpreadLoop(_, _, _)
SpreadLoop(v, start, rc) ==
  IF rc >= N THEN v
  ELSE LET t == IF rc < H THEN (IF start % 2 = 0 THEN RotRows(v, H - rc) ELSE RotRows(v, rc)) ELSE ColSwap(v)
       IN SpreadLoop(VAdd(v, t), start \div 2, 2 * rc)
Spread(sh, a, lo, hi) == SpreadLoop(VMul(a, MaskV(lo, hi)), lo \div DcG(sh), DcG(sh))
DcSmallOut(A, B, sh, bi, bj, o) ==
  LET g == DcG(sh)  s == DcS(sh)  M == DcM(sh)
      b == DcEncW(B, sh, bj, o)
      term(x) == LET sl == (x % s) * g  a == DcEncIn(A, sh, bi, bj, x \div s) IN
                 VAdd(VMul(RotRows(b, x), Spread(sh, a, sl, sl + M - x)),
                      IF x = 0 THEN VZero ELSE VMul(RotRows(b, 0 - (M - x)), Spread(sh, a, sl + M - x, sl + M)))
  IN VSum([q \in 1..M |-> term(q - 1)])
DcOut(A, B, sh, bi, o) == VSum([q \in 1..DcBC(sh) |-> DcSmallOut(A, B, sh, bi, q - 1, o)])
DcRead(sh, row, col) == <<row \div DcM(sh), col \div DcS(sh), (col % DcS(sh)) * DcG(sh) + (row % DcM(sh))>>   \* block row, output, slot

(***************************************************************************)
(* The checked statements: for every pair of unit matrices the value read  *)
(* for every element of c is the element of the product.                   *)
(***************************************************************************)
UnitA(sh, i0, k0) == [i \in 0..(sh.m-1) |-> [k \in 0..(sh.r-1) |-> IF i = i0 /\ k = k0 THEN 1 ELSE 0]]
UnitB(sh, k1, j1) == [k \in 0..(sh.r-1) |-> [j \in 0..(sh.n-1) |-> IF k = k1 /\ j = j1 THEN 1 ELSE 0]]
Want(i0, k0, k1, j1, row, col) == IF k0 = k1 /\ row = i0 /\ col = j1 THEN 1 ELSE 0
Units(sh) == (0..(sh.m-1)) \X (0..(sh.r-1)) \X (0..(sh.r-1)) \X (0..(sh.n-1))

CpOk(sh) ==
  \A u \in Units(sh) :
    LET A == UnitA(sh, u[1], u[2])  B == UnitB(sh, u[3], u[4])
        outs == [ch \in 0..(CpChunks(sh)-1) |-> [i \in 0..(CpOC(sh)-1) |-> CpOut(A, B, sh, ch, i)]]
    IN \A row \in 0..(sh.m-1), col \in 0..(sh.n-1) :
         LET rd == CpRead(sh, row, col) IN outs[rd[1]][rd[2]][rd[3]] = Want(u[1], u[2], u[3], u[4], row, col)
CrOk(sh) ==
  LET M == CrM(sh)  nb == CeilDiv(sh.m, M)  wb == CeilDiv(sh.n, M)  oc == CeilDiv(M, CrS(sh)) IN
  \A u \in Units(sh) :
    LET A == UnitA(sh, u[1], u[2])  B == UnitB(sh, u[3], u[4])
        outs == [bi \in 0..(nb-1) |-> [bj \in 0..(wb-1) |-> [o \in 0..(oc-1) |-> CrOut(A, B, sh, bi, bj, o)]]]
    IN \A row \in 0..(sh.m-1), col \in 0..(sh.n-1) :
         LET rd == CrRead(sh, row, col) IN outs[rd[1]][rd[2]][rd[3]][rd[4]] = Want(u[1], u[2], u[3], u[4], row, col)
DcOk(sh) ==
  \A u \in Units(sh) :
    LET A == UnitA(sh, u[1], u[2])  B == UnitB(sh, u[3], u[4])
        outs == [bi \in 0..(DcBR(sh)-1) |-> [o \in 0..(DcOC(sh)-1) |-> DcOut(A, B, sh, bi, o)]]
    IN \A row \in 0..(sh.m-1), col \in 0..(sh.n-1) :
         LET rd == DcRead(sh, row, col) IN outs[rd[1]][rd[2]][rd[3]] = Want(u[1], u[2], u[3], u[4], row, col)
\* the schedule of bolt_cp is well-formed: powers of two, IR * OR = s, at least two giant steps
CpParamsOk(sh) == /\ CpIR(sh) >= 1 /\ CpOR(sh) >= 2 /\ CpIR(sh) * CpOR(sh) = CpS(sh) /\ CpG(sh) * CpS(sh) = N /\ CpG(sh) >= CpMs(sh)

(***************************************************************************)
(* One state per shape, so that TLC's workers share the shapes.            *)
(***************************************************************************)
VARIABLE st      \* <<m, r, n>>, 0 = not chosen yet
Init == st = <<0, 0, 0>>
Next == \/ st[1] = 0 /\ \E m \in 1..MaxM : st' = <<m, 0, 0>>
        \/ st[1] # 0 /\ st[2] = 0 /\ \E r \in 1..MaxR : st' = <<st[1], r, 0>>
        \/ st[2] # 0 /\ st[3] = 0 /\ \E n \in 1..MaxN : st' = <<st[1], st[2], n>>
Spec == Init /\ [][Next]_st
Shape == [m |-> st[1], r |-> st[2], n |-> st[3]]
AllCpParamsOk == st[3] # 0 => CpParamsOk(Shape)
AllCpOk == st[3] # 0 => CpOk(Shape)
AllCrOk == st[3] # 0 => CrOk(Shape)
AllDcOk == st[3] # 0 => DcOk(Shape)
=============================================================================
