------------------------------ MODULE Trace_HE ------------------------------
(***************************************************************************)
(* Trace validation of recorded evaluator programs against HE.tla          *)
(* (impl -> spec direction for C01-C06).                                   *)
(*                                                                         *)
(* The harness (hcv he-drive) runs long seeded-random programs directly    *)
(* against the library - the driver chooses the calls from what the REAL   *)
(* objects look like (it relinearizes what is of size 3, switches what has *)
(* little budget left, ...) and also throws in ill-typed calls - and logs  *)
(* one line per call: the action with its arguments, whether the call      *)
(* returned, whether the three API forms agreed, and the projection of the *)
(* object the call produced.  This module consumes the log: for every line *)
(* it evaluates the result operator of HE.tla on the model's pool, judges  *)
(* the line by the verdict (ok: the projection must match; refuse: the     *)
(* call must not have returned; any: nothing is demanded), and advances    *)
(* the model's pool.                                                       *)
(*                                                                         *)
(* Resynchronisation (the log is the truth about what the library did):    *)
(*   - a call that did not return leaves the destination as it was;        *)
(*   - after an unconstrained call that returned, and after a rejected     *)
(*     line, the destination is Untracked: every later use of it is        *)
(*     unconstrained until the slot is overwritten by a tracked result;    *)
(*   - where the specification leaves the BGV correction factor open       *)
(*     (cfany: only the balancing post-condition is specified) the logged  *)
(*     factor is adopted.                                                  *)
(* CKKS scales (IEEE bit patterns) and slot values (floating point) cannot *)
(* be compared inside TLC: for those the expected scale expression, value  *)
(* and tolerance are printed ("X" lines) and compared by bin/check.        *)
(***************************************************************************)
EXTENDS HE, Json, IOUtils

Rec == ndJsonDeserialize(IOEnv.TRACE)
VARIABLES l, bad
tvars == <<pool, nsteps, hist, l, bad>>

Untracked == [Empty EXCEPT !.why = "untracked"]

\* the result operator of the action a line names (the same dispatch as the actions of HE.tla)
ResOf(a) ==
  CASE a.op = "encode"        -> EncodeRes(a.m, a.lvl, a.e)
    [] a.op = "encrypt"       -> EncryptRes(pool[a.p], a.mode)
    [] a.op = "encrypt_zero"  -> EncryptZeroRes(a.lvl, a.mode)
    [] a.op = "expand"        -> ExpandRes(pool[a.a])
    [] a.op = "decrypt"       -> DecryptRes(pool[a.a])
    [] a.op = "negate"        -> NegateRes(pool[a.a])
    [] a.op = "add"           -> AddSubRes(pool[a.a], pool[a.b], FALSE)
    [] a.op = "sub"           -> AddSubRes(pool[a.a], pool[a.b], TRUE)
    [] a.op = "multiply"      -> MultiplyRes(pool[a.a], pool[a.b])
    [] a.op = "square"        -> MultiplyRes(pool[a.a], pool[a.a])
    [] a.op = "relinearize"   -> RelinRes(pool[a.a])
    [] a.op = "add_plain"     -> AddSubPlainRes(pool[a.a], pool[a.p], FALSE)
    [] a.op = "sub_plain"     -> AddSubPlainRes(pool[a.a], pool[a.p], TRUE)
    [] a.op = "multiply_plain" -> MulPlainRes(pool[a.a], pool[a.p])
    [] a.op = "to_ntt"        -> ToNttRes(pool[a.a])
    [] a.op = "from_ntt"      -> FromNttRes(pool[a.a])
    [] a.op = "plain_to_ntt"  -> PlainToNttRes(pool[a.p], a.lvl)
    [] a.op = "mod_switch_next" -> ModSwitchToRes(pool[a.a], pool[a.a].lvl - 1)
    [] a.op = "mod_switch_to"   -> ModSwitchToRes(pool[a.a], a.lvl)
    [] a.op = "rescale_next"    -> RescaleToRes(pool[a.a], pool[a.a].lvl - 1)
    [] a.op = "rescale_to"      -> RescaleToRes(pool[a.a], a.lvl)
    [] a.op = "mod_switch_plain_next" -> ModSwitchPlainToRes(pool[a.p], pool[a.p].lvl - 1)
    [] a.op = "mod_switch_plain_to"   -> ModSwitchPlainToRes(pool[a.p], a.lvl)
    [] a.op = "apply_galois"  -> GaloisRes(pool[a.a], a.g)
    [] a.op = "rotate"        -> RotateRes(pool[a.a], a.s)
    [] a.op = "conjugate"     -> ConjRes(pool[a.a])
    [] a.op = "corrupt"       -> CorruptRes(pool[a.a], a.f)
    [] a.op = "encrypt_other" -> EncryptOtherRes(pool[a.p], a.mode)
    [] a.op = "keyswitch"     -> KeySwitchRes(pool[a.a])
    [] a.op = "reload"        -> ReloadRes(pool[a.a])
    [] a.op = "add_many"      -> AddManyRes([i \in 1..Len(a.ops) |-> pool[a.ops[i]]])
    [] a.op = "multiply_many" -> MultiplyManyRes([i \in 1..Len(a.ops) |-> pool[a.ops[i]]])

ValueCompared(P) == /\ P.cmp
                    /\ ~(P.kind = "pt" /\ ~IsCkks /\ P.ntt)      \* an NTT-form BFV/BGV plaintext has no decoder
                    /\ ~(P.kind = "ct" /\ P.seeded)
ValEq(ev, ov) == Len(ov) >= Len(ev) /\ \A i \in 1..Len(ev) : ov[i] = ev[i]

\* Worst-case noise accounting as a statement about the code: when the model still guarantees exact decryption
\* (|w| <= 2^nbw), the budget computed by the library from the real noise is at least bits(Q) - (nbw + 1) - 1.
BudgetFloor(P) == QLow[P.lvl+1] - (IF IsBfv THEN P.nb + TBits ELSE P.nb) - 1

\* "" when the logged projection o matches the expected projection P, otherwise the first field that differs
Mismatch(P, o) ==
  IF o.kind # P.kind THEN "kind"
  ELSE IF ~P.valid THEN ""                                          \* corrupted on purpose: nothing else is specified
  ELSE IF ~(P.kind = "ct" /\ P.seeded) /\ ~o.valid THEN "result is not valid for the context"
  ELSE IF ~o.ivalid THEN "result fails the independent validity predicate"
  ELSE IF (P.kind = "ct" \/ P.ntt) /\ o.lvl # P.lvl THEN "level"
  ELSE IF o.ntt # P.ntt THEN "representation"
  ELSE IF P.kind = "ct" /\ o.size # P.size THEN "size"
  ELSE IF P.kind = "ct" /\ o.seeded # P.seeded THEN "seededness"
  ELSE IF P.kind = "ct" /\ o.cf # P.cf /\ ~(P.cfany /\ o.cf \in 1..(T-1)) THEN "correction factor"
  ELSE IF ~IsCkks /\ ~o.scale1 THEN "scale"
  ELSE IF ~IsCkks /\ ValueCompared(P) /\ (~o.hasval \/ ~ValEq(P.val, o.val)) THEN "value"
  ELSE IF ~IsCkks /\ P.kind = "ct" /\ ValueCompared(P) /\ o.hasbudget /\ o.budget < BudgetFloor(P)
       THEN "noise above the worst-case bound of the specification"
  ELSE ""

TInit == Init /\ l = 1 /\ bad = <<>>

Call(e) ==
  LET res == ResOf(e.act)
      h   == Norm(res.h)
      P   == Proj(h)
      why == CASE res.v = "ok"     -> IF e.refused THEN "refused although the specification demands a result"
                                      ELSE IF e.forms # "" THEN "API forms disagree"
                                      ELSE Mismatch(P, e.obs)
               [] res.v = "refuse" -> IF e.refused THEN ""
                                      ELSE "returned although it must be refused"
               [] OTHER            -> ""
      newh == IF e.refused THEN pool[e.dst]
              ELSE IF res.v = "ok" /\ why = ""
                   THEN (IF h.kind = "ct" /\ h.valid THEN [h EXCEPT !.cf = e.obs.cf] ELSE h)
                   ELSE Untracked
  IN /\ pool' = [pool EXCEPT ![e.dst] = newh]
     /\ bad' = IF why = "" THEN bad ELSE Append(bad, <<l, why, res.v, res.h.why>>)
     /\ PrintT(<<"V", ToJson([l |-> l, v |-> res.v, refused |-> e.refused, op |-> e.act.op, why |-> res.h.why,
                                 cmp |-> (res.v = "ok" /\ ValueCompared(P))])>>)
     /\ (IsCkks /\ res.v = "ok" /\ why = "" /\ ~e.refused /\ P.valid) =>
           PrintT(<<"X", ToJson([l |-> l, sc |-> P.sc, nb |-> P.nb, cmp |-> ValueCompared(P), val |-> P.val])>>)

TNext ==
  /\ l <= Len(Rec) /\ l' = l + 1
  /\ UNCHANGED <<nsteps, hist>>
  /\ LET e == Rec[l] IN
       IF e.ev = "reset"
       THEN pool' = [s \in DOMAIN pool |-> Empty] /\ bad' = bad
       ELSE Call(e)

TSpec == TInit /\ [][TNext]_tvars
Done == l = Len(Rec) + 1
Report == Done => PrintT(<<"BAD", ToJson([bad |-> bad, lines |-> Len(Rec)])>>)
AllHold == Done => bad = <<>>
\* the model's pool stays well-formed along every recorded program
PoolValid == Valid
=============================================================================
