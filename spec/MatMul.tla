------------------------------- MODULE MatMul -------------------------------
(***************************************************************************)
(* Functional specification of the homomorphic matrix product and 2-D      *)
(* convolution helpers (property C20), modulo the plain modulus t.         *)
(*   matmul : Y[i][j] = sum_k X[i][k] * W[k][j] + B[i][j]   (row-major)     *)
(*   conv   : valid cross-correlation over input channels, per batch item  *)
(*            and output channel, plus bias                                *)
(*   roundtrip : output re-encoding is the inverse of output decoding      *)
(*   rnsp   : the RNS-plaintext wrapper computes modulo t_1 * ... * t_k    *)
(*   *_ckks : the CKKS variants compute the same functions over the        *)
(*            integers within 2^-5                                         *)
(* Matrices are flat row-major sequences as the helpers take them.         *)
(***************************************************************************)
EXTENDS Integers, Sequences, TLC

RECURSIVE SumTo(_, _)
SumTo(f, k) == IF k = 0 THEN 0 ELSE f[k] + SumTo(f, k-1)
Mod(a, m) == a % m

MatMulSpec(x, w, b, m, r, n, t) ==
  [p \in 1..(m*n) |->
     LET i == (p - 1) \div n  j == (p - 1) % n IN
     Mod(SumTo([k \in 1..r |-> Mod(x[i*r + k] * w[(k-1)*n + j + 1], t)], r) + b[p], t)]

\* x: [batch][ci][h][w], wt: [co][ci][kh][kw], out: [batch][co][oh][ow]
ConvSpec(x, wt, b, bs, ci, co, h, w, kh, kw, t) ==
  LET oh == h - kh + 1  ow == w - kw + 1 IN
  [p \in 1..(bs*co*oh*ow) |->
     LET q == p - 1
         bb == q \div (co*oh*ow)
         oc == (q \div (oh*ow)) % co
         oi == (q \div ow) % oh
         oj == q % ow
         terms == [s \in 1..(ci*kh*kw) |->
                     LET u == s - 1  ic == u \div (kh*kw)  ki == (u \div kw) % kh  kj == u % kw IN
                     Mod(x[bb*ci*h*w + ic*h*w + (oi+ki)*w + (oj+kj) + 1] * wt[oc*ci*kh*kw + ic*kh*kw + ki*kw + kj + 1], t)]
     IN Mod(SumTo(terms, ci*kh*kw) + b[p], t)]

\* CKKS variants: the same functions over the integers (operands are small integers), results within 2^-5 (recorded in units of 2^-10)
MatMulInt(x, w, b, m, r, n) ==
  [p \in 1..(m*n) |->
     LET i == (p - 1) \div n  j == (p - 1) % n IN
     SumTo([k \in 1..r |-> x[i*r + k] * w[(k-1)*n + j + 1]], r) + b[p]]
ConvInt(x, wt, b, bs, ci, co, h, w, kh, kw) ==
  LET oh == h - kh + 1  ow == w - kw + 1 IN
  [p \in 1..(bs*co*oh*ow) |->
     LET q == p - 1
         bb == q \div (co*oh*ow)
         oc == (q \div (oh*ow)) % co
         oi == (q \div ow) % oh
         oj == q % ow
         terms == [s \in 1..(ci*kh*kw) |->
                     LET u == s - 1  ic == u \div (kh*kw)  ki == (u \div kw) % kh  kj == u % kw IN
                     x[bb*ci*h*w + ic*h*w + (oi+ki)*w + (oj+kj) + 1] * wt[oc*ci*kh*kw + ic*kh*kw + ki*kw + kj + 1]]
     IN SumTo(terms, ci*kh*kw) + b[p]]
AbsI(a) == IF a < 0 THEN 0 - a ELSE a
Within(y1024, exp) == Len(y1024) = Len(exp) /\ \A p \in 1..Len(exp) : AbsI(y1024[p] - 1024 * exp[p]) <= 32

\* RNS-plaintext wrapper: plain modulus T = product of the component moduli; slot-wise (or coefficient-wise) arithmetic modulo T
RECURSIVE ProdSeq(_, _)
ProdSeq(s, k) == IF k = 0 THEN 1 ELSE s[k] * ProdSeq(s, k-1)
RnspSpec(e) ==
  LET T == ProdSeq(e.moduli, Len(e.moduli)) IN
  [i \in 1..Len(e.a) |->
     CASE e.op = "id"  -> e.a[i]
       [] e.op = "neg" -> Mod(T - e.a[i], T)
       [] e.op \in {"add", "add_plain"} -> Mod(e.a[i] + e.b[i], T)
       [] e.op \in {"sub", "sub_plain"} -> Mod(e.a[i] + T - e.b[i], T)
       [] e.op \in {"mul", "mul_plain"} -> Mod(e.a[i] * e.b[i], T)
       [] e.op = "square" -> Mod(e.a[i] * e.a[i], T)]

MatEventOk(e) ==
  CASE e.k = "rnsp" -> e.out = RnspSpec(e)
    [] e.k = "matmul_ckks" -> Within(e.y1024, MatMulInt(e.x, e.w, e.bias, e.m, e.r, e.n))
    [] e.k = "conv_ckks" -> Within(e.y1024, ConvInt(e.x, e.w, e.bias, e.bs, e.ci, e.co, e.h, e.wd, e.kh, e.kw))
    [] e.k = "matmul" -> e.y = MatMulSpec(e.x, e.w, e.bias, e.m, e.r, e.n, e.t)
    [] e.k = "conv" -> e.y = ConvSpec(e.x, e.w, e.bias, e.bs, e.ci, e.co, e.h, e.wd, e.kh, e.kw, e.t)
    [] e.k = "roundtrip" -> e.out = e.v
    [] OTHER -> FALSE
=============================================================================
