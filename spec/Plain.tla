------------------------------- MODULE Plain -------------------------------
(***************************************************************************)
(* The plaintext algebra the properties talk about.                        *)
(*                                                                         *)
(*  - R_t = Z_t[X]/(X^N+1): addition, negation, negacyclic product, the    *)
(*    automorphism X -> X^g for odd g, monomial shift.                     *)
(*  - The batching view (C04, C11): slot i of a polynomial a is a(psi^e_i) *)
(*    with e_i = 3^i for the first row and -3^i for the second row, psi    *)
(*    the minimal primitive 2N-th root of unity modulo t.                  *)
(*  - The CKKS view: vectors of N/2 Gaussian integers with slot-wise       *)
(*    ring operations, rotation and conjugation.                           *)
(*                                                                         *)
(* Everything is value level and executable by TLC for small N, T          *)
(* (all intermediate products stay below 2^31 for T < 46341).              *)
(***************************************************************************)
EXTENDS Integers, Sequences, FiniteSets

CONSTANTS N,      \* polynomial modulus degree, a power of two
          T       \* plaintext modulus (prime, = 1 mod 2N when batching is used)

Idx == 0..(N-1)
M2  == 2*N
Half == N \div 2

Mod(a, m) == a % m     \* TLC: result in 0..m-1 also for negative a

(***************************************************************************)
(* Polynomials are functions Idx -> 0..T-1.                                *)
(***************************************************************************)
Poly == [Idx -> 0..(T-1)]
PZero == [i \in Idx |-> 0]
PConst(c) == [i \in Idx |-> IF i = 0 THEN Mod(c, T) ELSE 0]
PMono(c, k) == [i \in Idx |-> IF i = k THEN Mod(c, T) ELSE 0]
PFromSeq(s) == [i \in Idx |-> IF i < Len(s) THEN Mod(s[i+1], T) ELSE 0]
PToSeq(a) == [i \in 1..N |-> a[i-1]]

PAdd(a, b) == [i \in Idx |-> Mod(a[i] + b[i], T)]
PNeg(a)    == [i \in Idx |-> Mod(T - a[i], T)]
PSub(a, b) == [i \in Idx |-> Mod(a[i] + T - b[i], T)]
PScale(a, c) == [i \in Idx |-> Mod(a[i] * Mod(c, T), T)]

RECURSIVE SumTo(_, _)
SumTo(f, n) == IF n < 0 THEN 0 ELSE f[n] + SumTo(f, n-1)

\* negacyclic product: coefficient k is sum_{i<=k} a_i b_{k-i} - sum_{i>k} a_i b_{N+k-i}
PMul(a, b) ==
  [k \in Idx |->
     Mod(SumTo([i \in Idx |->
                  IF i <= k THEN Mod(a[i] * b[k-i], T)
                            ELSE Mod(T - Mod(a[i] * b[N + k - i], T), T)], N-1), T)]

\* X^i -> X^(i*g): index (i*g mod 2N) mod N, sign flipped when i*g mod 2N >= N
PAuto(a, g) ==
  [k \in Idx |->
     LET i == CHOOSE j \in Idx : Mod(j * g, M2) % N = k
     IN IF Mod(i * g, M2) >= N THEN Mod(T - a[i], T) ELSE a[i]]

\* multiplication by X^s (negacyclic shift)
PShift(a, s) ==
  [k \in Idx |->
     LET i == Mod(k - s, N)
     IN IF Mod(i + s, M2) >= N /\ Mod(i + s, M2) < M2 /\ ((i + s) \div N) % 2 = 1
        THEN Mod(T - a[i], T) ELSE a[i]]

(***************************************************************************)
(* Powers and roots.                                                       *)
(***************************************************************************)
RECURSIVE PowMod(_, _, _)
PowMod(b, e, m) == IF e = 0 THEN 1 % m ELSE Mod(b * PowMod(b, e-1, m), m)

IsPrimitiveRoot(r, m) == PowMod(r, N, m) = m - 1     \* r^N = -1  (order exactly 2N, N a power of two)
HasBatching == (T - 1) % M2 = 0
Psi == CHOOSE r \in 2..(T-1) : IsPrimitiveRoot(r, T) /\ \A s \in 2..(r-1) : ~IsPrimitiveRoot(s, T)

Pow3(i) == PowMod(3, i, M2)

\* evaluation a(psi^e)
PEval(a, e) == Mod(SumTo([i \in Idx |-> Mod(a[i] * PowMod(Psi, Mod(i*e, M2), T), T)], N-1), T)

\* exponent of the evaluation point of slot i (0..N-1; rows of length N/2)
SlotExp(i) == IF i < Half THEN Pow3(i) ELSE M2 - Pow3(i - Half)
Slots(a) == [i \in Idx |-> PEval(a, SlotExp(i))]

\* Galois element the library documents for a row rotation by s (|s| < N/2), and for the column swap
EltOfStep(s) == IF s = 0 THEN M2 - 1
                ELSE IF s > 0 THEN Pow3(s) ELSE Pow3(Half + s)
RotRows(v, s) == [i \in Idx |-> IF i < Half THEN v[Mod(i + s, Half)] ELSE v[Half + Mod(i - Half + s, Half)]]
SwapRows(v)   == [i \in Idx |-> IF i < Half THEN v[i + Half] ELSE v[i - Half]]

(***************************************************************************)
(* CKKS slot vectors: N/2 Gaussian integers <<re, im>>.                    *)
(***************************************************************************)
SIdx == 0..(Half-1)
CAdd(u, v) == [i \in SIdx |-> <<u[i][1] + v[i][1], u[i][2] + v[i][2]>>]
CSub(u, v) == [i \in SIdx |-> <<u[i][1] - v[i][1], u[i][2] - v[i][2]>>]
CNeg(u)    == [i \in SIdx |-> <<0 - u[i][1], 0 - u[i][2]>>]
CMul(u, v) == [i \in SIdx |-> <<u[i][1]*v[i][1] - u[i][2]*v[i][2], u[i][1]*v[i][2] + u[i][2]*v[i][1]>>]
CConj(u)   == [i \in SIdx |-> <<u[i][1], 0 - u[i][2]>>]
CRot(u, s) == [i \in SIdx |-> u[Mod(i + s, Half)]]
CZero      == [i \in SIdx |-> <<0, 0>>]
CFromSeq(s) == [i \in SIdx |-> IF i < Len(s) THEN s[i+1] ELSE <<0,0>>]
CToSeq(u) == [i \in 1..Half |-> u[i-1]]
Abs(x) == IF x < 0 THEN 0 - x ELSE x
RECURSIVE MaxTo(_, _)
MaxTo(f, n) == IF n < 0 THEN 0 ELSE LET r == MaxTo(f, n-1) IN IF f[n] > r THEN f[n] ELSE r
CMaxAbs(u) == MaxTo([i \in SIdx |-> Abs(u[i][1]) + Abs(u[i][2])], Half-1)

\* smallest b with x < 2^b
RECURSIVE BitLen(_)
BitLen(x) == IF x <= 0 THEN 0 ELSE 1 + BitLen(x \div 2)
=============================================================================
