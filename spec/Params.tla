------------------------------- MODULE Params -------------------------------
(***************************************************************************)
(* Parameter validation and the modulus chain (property C13).              *)
(*                                                                         *)
(* Pre(p, k) is the documented mathematical precondition of the level that *)
(* uses the first k coefficient moduli of parameter object p.  The         *)
(* property is a soundness statement: a context may report its parameters  *)
(* as set only if Pre holds for every level of its chain; otherwise it     *)
(* reports a specific error and construction does not panic.  Which of     *)
(* several applicable errors is reported is not constrained.               *)
(*                                                                         *)
(* A parameter object: [scheme, n, moduli (sequence), t, sec, expand,      *)
(* special_enc].  All numbers of the exhaustively enumerated universe are  *)
(* small enough for native TLC integers (products below 2^31).             *)
(***************************************************************************)
EXTENDS Integers, Sequences, FiniteSets, TLC

RECURSIVE BitLen(_)
BitLen(x) == IF x <= 0 THEN 0 ELSE 1 + BitLen(x \div 2)
RECURSIVE Gcd(_, _)
Gcd(a, b) == IF b = 0 THEN a ELSE Gcd(b, a % b)
RECURSIVE Prod(_, _)
Prod(s, k) == IF k = 0 THEN 1 ELSE s[k] * Prod(s, k-1)
IsPow2(n) == n >= 1 /\ \E e \in 0..17 : n = 2^e

\* HomomorphicEncryption.org table (ternary secret, 128-bit classical)
MaxBits128(n) == CASE n = 1024 -> 27 [] n = 2048 -> 54 [] n = 4096 -> 109 [] n = 8192 -> 218
                   [] n = 16384 -> 438 [] n = 32768 -> 881 [] OTHER -> 0

UserBitsOk(v) == v >= 2 /\ BitLen(v) <= 60

Pre(p, k) ==
  /\ p.scheme \in {"bfv", "bgv", "ckks"}
  /\ k >= 1 /\ k <= 64 /\ k <= Len(p.moduli)
  /\ \A i \in 1..k : UserBitsOk(p.moduli[i])
  /\ IsPow2(p.n) /\ p.n >= 2 /\ p.n <= 131072
  /\ (p.sec = "tc128" => BitLen(Prod(p.moduli, k)) <= MaxBits128(p.n))
  /\ \A i \in 1..k, j \in 1..k : i < j => Gcd(p.moduli[i], p.moduli[j]) = 1
  /\ \A i \in 1..k : p.moduli[i] % (2 * p.n) = 1
  /\ IF p.scheme = "ckks" THEN p.t = 0
     ELSE /\ UserBitsOk(p.t)
          /\ \A i \in 1..k : Gcd(p.moduli[i], p.t) = 1
          /\ p.t < Prod(p.moduli, k)

SpecificError(e) == e \notin {"None", "Success"}

(***************************************************************************)
(* Chain rules for an accepted parameter object.  ev.levels lists the      *)
(* ciphertext levels from the first one down to the last, ev.key is the    *)
(* key level.                                                              *)
(***************************************************************************)
IsPrefixOf(s, full) == Len(s) <= Len(full) /\ \A i \in 1..Len(s) : s[i] = full[i]

ChainOk(p, ev) ==
  LET L == ev.levels
      nl == Len(L)
      keylen == Len(p.moduli)
      firstIsKey == keylen = 1 \/ p.special_enc
      \* the first ciphertext level is the key level when there is a single modulus, when the special prime is
      \* also used for encryption, or when the library does not accept the level below the key level
      keyIsFirst == L[1].moduli = p.moduli
  IN /\ nl >= 1
     /\ ev.key.moduli = p.moduli
     /\ (firstIsKey => keyIsFirst)
     /\ (~keyIsFirst => L[1].moduli = SubSeq(p.moduli, 1, keylen - 1))
     /\ ev.key.index = (IF keyIsFirst THEN nl - 1 ELSE nl)
     /\ ev.using_keyswitching = ~keyIsFirst
     /\ (~p.expand => nl = 1)
     /\ \A i \in 1..nl :
          /\ L[i].index = nl - i                                   \* strictly decreasing, ending at 0
          /\ IsPrefixOf(L[i].moduli, p.moduli)
          /\ Len(L[i].moduli) = Len(L[1].moduli) - (i - 1)         \* one prime dropped per level
          /\ L[i].next_index = (IF i = nl THEN -1 ELSE nl - i - 1)  \* doubly linked
          /\ L[i].prev_index = (IF i = 1 THEN (IF keyIsFirst THEN -1 ELSE nl) ELSE nl - i + 1)
          /\ Pre(p, Len(L[i].moduli))
     /\ Pre(p, keylen)

(***************************************************************************)
(* Precomputed constants equal their definitions (native integers)         *)
(***************************************************************************)
ConstOk(p, lv) ==
  LET k == Len(lv.moduli)
      q == Prod(lv.moduli, k)
  IN /\ lv.total = q
     /\ lv.total_bits = BitLen(q)
     /\ IF p.scheme = "ckks"
        THEN lv.upper_half_threshold = (q + 1) \div 2
        ELSE /\ lv.q_mod_t = q % p.t
             /\ \A j \in 1..k : lv.q_div_t[j] = (q \div p.t) % lv.moduli[j]
             /\ \A j \in 1..k : lv.upper_inc[j] = (q % p.t) % lv.moduli[j]
             /\ lv.plain_thr = (p.t + 1) \div 2
             /\ IF \A j \in 1..k : lv.moduli[j] > p.t
                THEN \A j \in 1..k : lv.plain_inc[j] = lv.moduli[j] - p.t
                ELSE lv.plain_inc_wide = q - p.t

ParamOf(ev) == [scheme |-> ev.scheme, n |-> ev.n, moduli |-> ev.moduli, t |-> ev.t, sec |-> ev.sec,
                expand |-> ev.expand, special_enc |-> ev.special_enc]

ParmEventOk(ev) ==
  LET p == ParamOf(ev) IN
  /\ ~ev.panic
  /\ IF ev.set
     THEN /\ ChainOk(p, ev)
          /\ (ev.small => \A i \in 1..Len(ev.levels) : ConstOk(p, ev.levels[i]))
          /\ ev.rebuild_same              \* building the context again gives the same ids on every level
          /\ ev.serialized_same           \* ... also from the deserialized serialization of the parameters
          /\ ev.order_same                \* ... and whatever order the builder's setters are called in
     ELSE SpecificError(ev.error)

\* identifiers are collision-free: events are sorted by identifier, equal neighbours must be the same parameters
SameParams(a, b) == a.scheme = b.scheme /\ a.n = b.n /\ a.moduli = b.moduli /\ a.t = b.t
IdOk(prev, ev) == prev.id = ev.id => SameParams(prev, ev)

(***************************************************************************)
(* Generated moduli: distinct primes of exactly the requested bit sizes,   *)
(* congruent to 1 modulo 2N (trial division; native integers)              *)
(***************************************************************************)
RECURSIVE NoDivisorFrom(_, _)
NoDivisorFrom(p, d) == IF d * d > p THEN TRUE ELSE IF p % d = 0 THEN FALSE ELSE NoDivisorFrom(p, d + 2)
IsPrime(p) == p = 2 \/ (p >= 3 /\ p % 2 = 1 /\ NoDivisorFrom(p, 3))
GenEventOk(ev) ==      \* a refusal (panic) is allowed when the request cannot be met
  ev.panic \/
    (/\ Len(ev.primes) = Len(ev.bits)
     /\ \A i \in 1..Len(ev.primes) :
          /\ BitLen(ev.primes[i]) = ev.bits[i]
          /\ ev.primes[i] % (2 * ev.n) = 1
          /\ IsPrime(ev.primes[i])
          /\ \A j \in 1..Len(ev.primes) : i # j => ev.primes[i] # ev.primes[j])

(***************************************************************************)
(* The universe as a state machine: one Build action per parameter object  *)
(* (used to enumerate the exhaustive universe and to check design facts).  *)
(***************************************************************************)
CONSTANTS USchemes, UDegrees, UModuli, UPlain, USecs, UMaxLen
VARIABLE built
UniverseLists == UNION {[1..k -> UModuli] : k \in 1..UMaxLen}
PInit == built = [scheme |-> "none", n |-> 0, moduli |-> <<>>, t |-> 0, sec |-> "none", expand |-> FALSE, special_enc |-> FALSE, pre |-> <<>>]
Build == \E s \in USchemes, n \in UDegrees, m \in UniverseLists, t \in UPlain, sec \in USecs, ex \in BOOLEAN, sp \in BOOLEAN :
           /\ (s = "ckks" => t = 0)
           /\ built' = [scheme |-> s, n |-> n, moduli |-> m, t |-> t, sec |-> sec, expand |-> ex, special_enc |-> sp,
                        pre |-> [k \in 1..Len(m) |-> Pre([scheme |-> s, n |-> n, moduli |-> m, t |-> t, sec |-> sec], k)]]
PNext == built.scheme = "none" /\ Build
\* design fact: dropping a prime can only break the precondition through "t < Q" (every other clause is prefix-closed)
PrefixClosed == \A k \in 2..Len(built.moduli) :
                  built.pre[k] /\ ~built.pre[k-1] => built.scheme # "ckks" /\ built.t >= Prod(built.moduli, k-1)
=============================================================================
