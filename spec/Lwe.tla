--------------------------------- MODULE Lwe ---------------------------------
(***************************************************************************)
(* LWE extraction, field trace and packing (property C19) on the plaintext *)
(* ring Z_t[X]/(X^n+1); polynomials are sequences of n coefficients.       *)
(*                                                                         *)
(* Abstract specification:                                                 *)
(*   Extract(m, i) then Assemble : constant coefficient = m[i]             *)
(*   Trace(m, l)  : coefficient j survives, multiplied by n/2^l, iff j is  *)
(*                  a multiple of n/2^l; all others become 0               *)
(*   Pack(v)      : k = Len(v) <= n values at stride n / 2^ceil(log2 k),   *)
(*                  zeros elsewhere                                        *)
(* Refinement: PackAlgo is the butterfly algorithm of the implementation   *)
(* (bit-reversed placement, shift / subtract / add / automorphism per      *)
(* layer, final field trace) at plaintext level; TLC checks that it equals *)
(* Pack for every k.                                                       *)
(***************************************************************************)
EXTENDS Ntt

PZeroN(n) == [i \in 1..n |-> 0]
PAddN(a, b, t) == [i \in 1..Len(a) |-> Mod(a[i] + b[i], t)]
PSubN(a, b, t) == [i \in 1..Len(a) |-> Mod(a[i] - b[i], t)]
PScaleN(a, c, t) == [i \in 1..Len(a) |-> Mod(a[i] * Mod(c, t), t)]
\* X^i -> X^(i g): coefficient at index (i*g mod 2n) mod n, negated when i*g mod 2n >= n
PAutoN(a, g, t) ==
  LET n == Len(a) IN
  [k \in 1..n |-> LET i == CHOOSE j \in 0..(n-1) : ((j * g) % (2*n)) % n = k - 1
                  IN IF (i * g) % (2*n) >= n THEN Mod(0 - a[i+1], t) ELSE a[i+1]]
\* multiplication by X^s, 0 <= s < 2n
PShiftN(a, s, t) ==
  LET n == Len(a) IN
  [k \in 1..n |-> LET i == (k - 1 - s) % n          \* source index with (i + s) = k-1 (mod n)
                  IN IF ((i + s) \div n) % 2 = 1 THEN Mod(0 - a[i+1], t) ELSE a[i+1]]
InvMod(x, t) == CHOOSE y \in 1..(t-1) : Mod(x * y, t) = 1
RECURSIVE CeilLog2(_)
CeilLog2(k) == IF k <= 1 THEN 0 ELSE 1 + CeilLog2((k + 1) \div 2)

(***************************************************************************)
(* Abstract specification                                                  *)
(***************************************************************************)
TraceSpec(m, l, t) == LET n == Len(m)  step == n \div (2^l) IN
  [j \in 1..n |-> IF (j - 1) % step = 0 THEN Mod(m[j] * step, t) ELSE 0]
PackSpec(v, n, t) == LET stride == n \div (2^CeilLog2(Len(v))) IN
  [j \in 1..n |-> IF (j - 1) % stride = 0 /\ (j - 1) \div stride < Len(v) THEN Mod(v[((j - 1) \div stride) + 1], t) ELSE 0]

(***************************************************************************)
(* The implementation's algorithm at plaintext level                       *)
(***************************************************************************)
RECURSIVE TraceAlgo(_, _, _, _)
TraceAlgo(m, pd, l, t) == IF pd <= 2^l THEN m ELSE TraceAlgo(PAddN(m, PAutoN(m, pd + 1, t), t), pd \div 2, l, t)

\* one butterfly layer over the array rl (sequence of 2^l polynomials)
Layer(rl, layer, n, t) ==
  LET gap == 2^layer
      shift == n \div (2^(layer + 1))
      Even(o) == rl[o]
      Odd(o) == rl[o + gap]
      Tmp(o) == PShiftN(Odd(o), shift, t)
      NewOdd(o) == PAutoN(PSubN(Even(o), Tmp(o), t), 2^(layer + 1) + 1, t)
      NewEven(o) == PAddN(PAddN(Even(o), Tmp(o), t), NewOdd(o), t)
  IN [i \in 1..Len(rl) |->
        IF (i - 1) % (2 * gap) = 0 THEN NewEven(i)
        ELSE IF (i - 1) % (2 * gap) = gap THEN NewOdd(i - gap)
        ELSE rl[i]]
RECURSIVE Layers(_, _, _, _, _)
Layers(rl, layer, l, n, t) == IF layer >= l THEN rl ELSE Layers(Layer(rl, layer, n, t), layer + 1, l, n, t)

PackAlgo(v, n, t) ==
  LET k == Len(v)
      l == CeilLog2(k)
      ninv == InvMod(n % t, t)
      init == [i \in 1..(2^l) |->
                 LET idx == Brev(i - 1, l) IN
                 IF idx < k THEN [j \in 1..n |-> IF j = 1 THEN Mod(v[idx + 1] * ninv, t) ELSE 0] ELSE PZeroN(n)]
  IN TraceAlgo(Layers(init, 0, l, n, t)[1], n, l, t)

(***************************************************************************)
(* Recorded events                                                         *)
(***************************************************************************)
Near(x, y, tol) == x - y <= tol /\ y - x <= tol
\* exact schemes: values mod t; CKKS: e.out are the decoded coefficients rounded to integers, e.dev their largest distance
\* from an integer in thousandths (must stay small)
LweEventOk(e) ==
  LET t == e.t  n == e.n
      Same(a, b) == IF e.exact THEN a = b ELSE a = b /\ e.dev <= 100
      Red(x) == IF e.exact THEN Mod(x, t) ELSE x
  IN
  CASE e.k = "extract" -> Same(e.out[1], Red(e.m[e.i + 1]))
    [] e.k = "trace" ->
         LET step == n \div (2^e.l) IN
         \A j \in 1..n : Same(e.out[j], IF (j - 1) % step = 0 THEN Red(e.m[j] * step) ELSE 0)
    [] e.k = "pack" ->
         LET stride == n \div (2^CeilLog2(Len(e.vals))) IN
         \A j \in 1..n : Same(e.out[j], IF (j - 1) % stride = 0 /\ (j - 1) \div stride < Len(e.vals)
                                        THEN Red(e.vals[((j - 1) \div stride) + 1]) ELSE 0)
    [] OTHER -> FALSE

(***************************************************************************)
(* Model: the algorithm refines the specification (all k, fixed probe)     *)
(***************************************************************************)
CONSTANTS RN, RT       \* degree and plain modulus of the refinement check
VARIABLE kk
Probe(k) == [i \in 1..k |-> Mod(3 * i + 1, RT)]
RInit == kk = 0
RNext == kk < RN /\ kk' = kk + 1
PackRefines == kk >= 1 => PackAlgo(Probe(kk), RN, RT) = PackSpec(Probe(kk), RN, RT)
TraceRefines == kk >= 1 /\ kk <= Log2(RN) + 1 =>
                  LET m == [i \in 1..RN |-> Mod(5 * i + 2, RT)] IN TraceAlgo(m, RN, kk - 1, RT) = TraceSpec(m, kk - 1, RT)
==============================================================================
