------------------------------- MODULE Conv2d -------------------------------
(***************************************************************************)
(* Refinement model of the coefficient-packing 2-D convolution             *)
(* (src/app/conv2d.rs, property C20).  MatMul.tla states WHAT the helper   *)
(* computes (the valid cross-correlation); this module states HOW: the     *)
(* five-dimensional block search, the overlapping image tiles, the three   *)
(* coefficient index maps, and TLC checks that the HOW computes the WHAT.  *)
(*                                                                         *)
(* Tensors (0-based): X[b][c][y][x] (BS x CI x H x W), K[o][c][ky][kx]     *)
(* (CO x CI x KH x KW), and                                                *)
(*   Y[b][o][i][j] = SUM_c,ky,kx X[b][c][i+ky][j+kx] * K[o][c][ky][kx]     *)
(* of size OH x OW, OH = H-KH+1, OW = W-KW+1.                              *)
(* Blocks bl = <<b, ci, co, h, w>> with b*ci*co*h*w <= N.  The image is    *)
(* cut into tiles of h x w pixels that overlap by KH-1 rows / KW-1         *)
(* columns; tile (th, tw) starts at row th*yh, column tw*yw (yh = h-KH+1,  *)
(* yw = w-KW+1) and yields the outputs of rows th*yh .. th*yh+yh-1.        *)
(* With lb, lc, lo the first batch / channel / output channel of a block   *)
(* and (sy, sx) the origin of the tile:                                    *)
(*  input poly (batch block, tile, input-channel block):                   *)
(*    X[b][c][y][x]   -> ((b-lb)*ci*co + (c-lc))*h*w + (y-sy)*w + (x-sx)   *)
(*  weight poly (output-channel block, input-channel block):               *)
(*    K[o][c][ky][kx] -> ((o-lo)*ci + ci-1-(c-lc))*h*w                     *)
(*                          + (KH-1-ky)*w + (KW-1-kx)                      *)
(*  output Y[b][o][th*yh+i][tw*yw+j] is read from coefficient              *)
(*    ((b-lb)*ci*co + (o-lo)*ci + ci-1)*h*w + (KH-1+i)*w + (KW-1+j)        *)
(*  of  SUM over input-channel blocks  input * weight  in Z[X]/(X^N+1).    *)
(* The product is bilinear, so unit tensors decide it.                     *)
(***************************************************************************)
EXTENDS Integers, Sequences, FiniteSets

CONSTANTS N,          \* polynomial degree
          MaxB, MaxC, MaxHW, MaxK     \* bounds of the shapes explored: batch, channels (in and out), image side, kernel side
Objectives == {"CipherPlain", "PlainCipher", "CpAddPc"}

CeilDiv(a, b) == (a + b - 1) \div b
Min(a, b) == IF a < b THEN a ELSE b
Inf == 1000000

\* a shape: [bs, ci, co, h, w, kh, kw]
Shapes == {s \in [bs : 1..MaxB, ci : 1..MaxC, co : 1..MaxC, h : 1..MaxHW, w : 1..MaxHW, kh : 1..MaxK, kw : 1..MaxK] :
             s.kh <= s.h /\ s.kw <= s.w}

(***************************************************************************)
(* Block search, transcribed from Conv2dHelper::new: all loops run         *)
(* downwards, the first strictly cheaper candidate wins.                   *)
(* best = <<b, ci, co, h, w, cost>>                                        *)
(***************************************************************************)
CostOf(s, obj, b, ci, co, h, w) ==
  LET cb == CeilDiv(s.bs, b)
      ch == CeilDiv(s.h - s.kh + 1, h - s.kh + 1)
      cw == CeilDiv(s.w - s.kw + 1, w - s.kw + 1)
      cci == CeilDiv(s.ci, ci)
      cco == CeilDiv(s.co, co)
      cin == cb * ch * cw * cci
      cout == cb * ch * cw * cco
      cwt == cci * cco
  IN CASE obj = "CipherPlain" -> cin + cout
       [] obj = "PlainCipher" -> cwt + cout
       [] OTHER               -> cin + cout + cwt

RECURSIVE ScanCo(_, _, _, _, _, _, _, _)
ScanCo(s, obj, b, h, w, upper, co, best) ==
  IF co < 1 THEN best
  ELSE LET ci == Min(s.ci, upper \div co) IN
       IF ci = 0 THEN ScanCo(s, obj, b, h, w, upper, co - 1, best)
       ELSE LET c == CostOf(s, obj, b, ci, co, h, w)
            IN ScanCo(s, obj, b, h, w, upper, co - 1, IF c < best[6] THEN <<b, ci, co, h, w, c>> ELSE best)
RECURSIVE ScanW(_, _, _, _, _, _, _)
ScanW(s, obj, b, h, upper, w, best) ==
  IF w < s.kw THEN best
  ELSE LET up == upper \div w
       IN ScanW(s, obj, b, h, upper, w - 1, ScanCo(s, obj, b, h, w, up, Min(s.co, up), best))
RECURSIVE ScanH(_, _, _, _, _, _)
ScanH(s, obj, b, upper, h, best) ==
  IF h < s.kh THEN best
  ELSE LET up == upper \div h
       IN ScanH(s, obj, b, upper, h - 1, ScanW(s, obj, b, h, up, Min(s.w, up), best))
RECURSIVE ScanB(_, _, _, _)
ScanB(s, obj, b, best) ==
  IF b < 1 THEN best
  ELSE LET up == N \div b
       IN ScanB(s, obj, b - 1, ScanH(s, obj, b, up, Min(s.h, up), best))
Search(s, obj) == ScanB(s, obj, s.bs, <<0, 0, 0, 0, 0, Inf>>)

(***************************************************************************)
(* Tiles and index maps (bl = <<b, ci, co, h, w, cost>>)                   *)
(***************************************************************************)
Yh(s, bl) == bl[4] - s.kh + 1
Yw(s, bl) == bl[5] - s.kw + 1
TilesH(s, bl) == CeilDiv(s.h - (s.kh - 1), bl[4] - (s.kh - 1))
TilesW(s, bl) == CeilDiv(s.w - (s.kw - 1), bl[5] - (s.kw - 1))
Blk(bl) == bl[4] * bl[5]
\* tile (th, tw) covers image rows sy .. min(H, sy + h) - 1
RowsOfTile(s, bl, th) == {y \in 0..(s.h - 1) : y >= th * Yh(s, bl) /\ y < th * Yh(s, bl) + bl[4]}
ColsOfTile(s, bl, tw) == {x \in 0..(s.w - 1) : x >= tw * Yw(s, bl) /\ x < tw * Yw(s, bl) + bl[5]}

InIdx(s, bl, b, c, y, x, th, tw) ==
  ((b % bl[1]) * bl[2] * bl[3] + (c % bl[2])) * Blk(bl) + (y - th * Yh(s, bl)) * bl[5] + (x - tw * Yw(s, bl))
WtIdx(s, bl, o, c, ky, kx) ==
  ((o % bl[3]) * bl[2] + (bl[2] - 1 - (c % bl[2]))) * Blk(bl) + (s.kh - 1 - ky) * bl[5] + (s.kw - 1 - kx)
OutIdx(s, bl, b, o, i, j) ==      \* i, j are the positions inside the tile (0 .. yh-1, 0 .. yw-1)
  ((b % bl[1]) * bl[2] * bl[3] + (o % bl[3]) * bl[2] + bl[2] - 1) * Blk(bl) + (bl[4] - Yh(s, bl) + i) * bl[5] + (bl[5] - Yw(s, bl) + j)

(***************************************************************************)
(* The checked statements                                                  *)
(***************************************************************************)
BlocksOk(s, obj) ==
  LET bl == Search(s, obj) IN
  /\ bl[1] >= 1 /\ bl[2] >= 1 /\ bl[3] >= 1 /\ bl[4] >= s.kh /\ bl[5] >= s.kw
  /\ bl[1] <= s.bs /\ bl[2] <= s.ci /\ bl[3] <= s.co /\ bl[4] <= s.h /\ bl[5] <= s.w
  /\ bl[1] * bl[2] * bl[3] * bl[4] * bl[5] <= N
  \* the tiles cover every output row and column
  /\ TilesH(s, bl) * Yh(s, bl) >= s.h - s.kh + 1
  /\ TilesW(s, bl) * Yw(s, bl) >= s.w - s.kw + 1

\* Unit tensors X = e(b0, c0, y0, x0), K = e(o0, c1, ky, kx): the input monomial of every tile that contains the pixel
\* times the weight monomial lands on X^r; the coefficient read for output (b0, o0, i, j) of that tile must be
\* 1 exactly when c0 = c1 and (i, j) = (y0 - ky, x0 - kx) in image coordinates, and 0 otherwise.
UnitOk(s, obj) ==
  LET bl == Search(s, obj)
      yh == Yh(s, bl)  yw == Yw(s, bl)
      oh == s.h - s.kh + 1  ow == s.w - s.kw + 1
  IN \A b0 \in 0..(s.bs-1), c0 \in 0..(s.ci-1), y0 \in 0..(s.h-1), x0 \in 0..(s.w-1),
        o0 \in 0..(s.co-1), c1 \in 0..(s.ci-1), ky \in 0..(s.kh-1), kx \in 0..(s.kw-1) :
       \A th \in 0..(TilesH(s, bl)-1), tw \in 0..(TilesW(s, bl)-1) :
         LET inTile == y0 \in RowsOfTile(s, bl, th) /\ x0 \in ColsOfTile(s, bl, tw)
             sameBlock == (c0 \div bl[2]) = (c1 \div bl[2])
             r == InIdx(s, bl, b0, c0, y0, x0, th, tw) + WtIdx(s, bl, o0, c1, ky, kx)
         IN \* every output the polynomial of (batch block of b0, tile, output block of o0) is read for
            \A b \in {x \in 0..(s.bs-1) : x \div bl[1] = b0 \div bl[1]}, o \in {x \in 0..(s.co-1) : x \div bl[3] = o0 \div bl[3]},
               i \in 0..(yh-1), j \in 0..(yw-1) :
              (th * yh + i < oh /\ tw * yw + j < ow) =>
                LET got == IF inTile /\ sameBlock /\ r % N = OutIdx(s, bl, b, o, i, j)
                           THEN (IF r < N THEN 1 ELSE 0 - 1) ELSE 0
                    want == IF b = b0 /\ o = o0 /\ c0 = c1 /\ th * yh + i = y0 - ky /\ tw * yw + j = x0 - kx THEN 1 ELSE 0
                IN got = want
\* the maps stay inside the polynomial
IndexOk(s, obj) ==
  LET bl == Search(s, obj) IN
  /\ \A b \in 0..(s.bs-1), c \in 0..(s.ci-1), th \in 0..(TilesH(s, bl)-1), tw \in 0..(TilesW(s, bl)-1) :
       \A y \in RowsOfTile(s, bl, th), x \in ColsOfTile(s, bl, tw) : InIdx(s, bl, b, c, y, x, th, tw) \in 0..(N-1)
  /\ \A o \in 0..(s.co-1), c \in 0..(s.ci-1), ky \in 0..(s.kh-1), kx \in 0..(s.kw-1) : WtIdx(s, bl, o, c, ky, kx) \in 0..(N-1)
  /\ \A b \in 0..(s.bs-1), o \in 0..(s.co-1), i \in 0..(Yh(s, bl)-1), j \in 0..(Yw(s, bl)-1) : OutIdx(s, bl, b, o, i, j) \in 0..(N-1)

VARIABLE done
Init == done = FALSE
Next == done' = TRUE
Spec == Init /\ [][Next]_done
\* (state-level on purpose: TLC evaluates constant-level definitions eagerly at start-up; evaluated in the successor state,
\*  i.e. by a worker thread, whose stack size -Xss controls - the initial state is evaluated on the small main-thread stack)
AllBlocksOk == done => \A s \in Shapes, obj \in Objectives : BlocksOk(s, obj)
AllIndexOk  == done => \A s \in Shapes, obj \in Objectives : IndexOk(s, obj)
AllUnitsOk  == done => \A s \in Shapes, obj \in Objectives : UnitOk(s, obj)
=============================================================================
