----------------------------- MODULE Multiparty -----------------------------
(***************************************************************************)
(* One broadcast round of the multiparty protocols (property C18).         *)
(*                                                                         *)
(* Every party i holds a share x[i] (an element of a toy ring Z_M here:    *)
(* the real shares are polynomials, the protocols only ever ADD them).     *)
(* Each party sends its share to every other party; messages are delivered *)
(* in any order.  A party may try to finish at any time: it is refused     *)
(* unless it has received the message of every other party, otherwise it   *)
(* outputs the sum of all shares.  Consequently all finished parties agree *)
(* and the output does not depend on the delivery order.                   *)
(*                                                                         *)
(* All protocols of the library are instances: the public key (shares      *)
(* p0_i = -(a s_i) - e_i over a common a), secret-key revelation, the two  *)
(* rounds of relinearization-key generation, key switching, public-key     *)
(* switching, collective decryption, cipher<->shares.                      *)
(***************************************************************************)
EXTENDS Integers, Sequences, FiniteSets, TLC

CONSTANTS NP,        \* number of parties
          M,         \* toy modulus
          Share,     \* Share[i] \in 0..M-1
          MaxPremature,  \* how many premature finish attempts a behaviour may contain
          Star           \* TRUE: aggregation at party 1 only (cipher<->shares): the others send to party 1 and keep their own share

Parties == 1..NP
VARIABLES got,      \* got[i] : set of parties whose message i has received
          state,    \* state[i] \in {"run", "done", "refused"}
          out,      \* out[i] : result of a finished party
          premature,
          hist
vars == <<got, state, out, premature, hist>>

RECURSIVE SumOver(_)
SumOver(S) == IF S = {} THEN 0 ELSE LET x == CHOOSE y \in S : TRUE IN Share[x] + SumOver(S \ {x})
Total == SumOver(Parties) % M

Init == /\ got = [i \in Parties |-> {}]
        /\ state = [i \in Parties |-> "run"]
        /\ out = [i \in Parties |-> -1]
        /\ premature = 0
        /\ hist = <<>>

Deliver(f, t) == /\ f # t /\ state[t] = "run" /\ f \notin got[t]
                 /\ (Star => t = 1)
                 /\ got' = [got EXCEPT ![t] = got[t] \cup {f}]
                 /\ hist' = Append(hist, [a |-> "deliver", f |-> f, t |-> t, ok |-> TRUE])
                 /\ UNCHANGED <<state, out, premature>>

Complete(i) == IF Star /\ i # 1 THEN TRUE ELSE got[i] = Parties \ {i}

Finish(i) == /\ state[i] = "run"
             /\ IF Complete(i)
                THEN /\ state' = [state EXCEPT ![i] = "done"]
                     /\ out' = [out EXCEPT ![i] = IF Star /\ i # 1 THEN Share[i] ELSE (Share[i] + SumOver(got[i])) % M]
                     /\ UNCHANGED premature
                     /\ hist' = Append(hist, [a |-> "finish", f |-> i, t |-> i, ok |-> TRUE])
                ELSE /\ premature < MaxPremature
                     /\ premature' = premature + 1
                     /\ state' = [state EXCEPT ![i] = "refused"]      \* the protocol object is consumed by the attempt
                     /\ UNCHANGED out
                     /\ hist' = Append(hist, [a |-> "finish", f |-> i, t |-> i, ok |-> FALSE])
             /\ UNCHANGED got

Next == (\E f \in Parties, t \in Parties : Deliver(f, t)) \/ (\E i \in Parties : Finish(i))
Spec == Init /\ [][Next]_vars

Quiescent == \A i \in Parties : state[i] # "run"
\* all parties that finished hold the sum of all shares: agreement and order independence
Agreement == \A i \in Parties : state[i] = "done" /\ (~Star \/ i = 1) => out[i] = Total
\* a party finishes only with every other party's message
NoEarlyFinish == \A i \in Parties : state[i] = "done" => Complete(i)
=============================================================================
