SPECIFICATION TSpec
CONSTANTS
  USchemes = {}
  UDegrees = {}
  UModuli = {}
  UPlain = {}
  USecs = {}
  UMaxLen = 0
INVARIANT Report
INVARIANT AllHold
CHECK_DEADLOCK FALSE
