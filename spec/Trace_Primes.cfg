SPECIFICATION TSpec
INVARIANT Report
INVARIANT AllHold
CHECK_DEADLOCK FALSE
