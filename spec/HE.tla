--------------------------------- MODULE HE ---------------------------------
(***************************************************************************)
(* System specification of the encryptor / evaluator / decryptor surface   *)
(* of Heathcliff (properties C01-C07).                                     *)
(*                                                                         *)
(* State: a pool of handles.  A handle is the abstract view of one         *)
(* Ciphertext or Plaintext object: its typestate (size, level,             *)
(* representation, scale, correction factor, seededness, validity) plus    *)
(* the exact plaintext it stands for, and a worst-case noise bound that    *)
(* decides whether exact decryption may be demanded.                       *)
(*                                                                         *)
(* One action per public entry point.  Every action computes a verdict:    *)
(*   "ok"     - the statement of the properties demands this result,       *)
(*   "refuse" - the statement demands that the call does not return,       *)
(*   "any"    - the statement does not constrain the call; the pool is     *)
(*              left unchanged and a replay stops checking that path.      *)
(* The refusal classes are the ones listed in C03/C05/C06, not the code's  *)
(* error ladder.                                                           *)
(*                                                                         *)
(* Levels are chain indices: First = NL-1 is the level of fresh BFV/BGV    *)
(* ciphertexts, 0 the last level.                                          *)
(***************************************************************************)
EXTENDS Plain, TLC

CONSTANTS Scheme,      \* "bfv" | "bgv" | "ckks"
          NL,          \* number of ciphertext levels
          CtSlots,     \* handle names for ciphertexts, e.g. {"c1","c2"}
          PtSlots,     \* handle names for plaintexts
          MaxSteps,    \* depth bound for the exhaustive instances
          MaxSize      \* largest ciphertext size whose value is tracked in this instance (<= 16)

\* The following are supplied by the generated MC_* module from the *real* parameter set
\* (the harness prints the primes, bin/check computes these with exact integers).
CONSTANTS QLow,        \* QLow[l+1]  : integer b with 2^b <= Q_l        (l = 0..NL-1)
          QHigh,       \* QHigh[l+1] : bit count of Q_l (what the library calls total_coeff_modulus_bit_count)
          PBits,       \* PBits[l+1] : bit count of the prime dropped when leaving level l (l >= 1; entry 1 unused)
          QInvT,       \* QInvT[l+1] : (dropped prime of level l)^-1 mod T  (BGV correction factor update)
          KsBits,      \* bits charged for one key switch (see Noise below)
          Msgs,        \* sequence of messages: coefficient sequences (BFV/BGV) or sequences of <<re,im>> (CKKS)
          Scales,      \* set of fresh CKKS scale exponents (log2), e.g. {20, 30}
          Steps,       \* rotation steps explored
          Elts,        \* Galois elements explored
          HasKeyFor(_),  \* which Galois elements have a key in the instance's key set
          SeedWords,   \* number of u64 words needed to store flag+seed (9)
          PrimeOffset, \* number of data primes that even the last level keeps beyond the first one (0 for a full chain)
          TagMsgs,     \* TRUE: handles remember which message they were encoded from (finer typestate classes)
          TagAlias     \* TRUE: handles remember that they were computed from ONE object used as both operands (x - x, x + x, x * x
                       \*       and what is derived from those alone): degenerate ciphertexts (all-zero polynomials, zero residues)

VARIABLES pool,     \* [CtSlots \cup PtSlots -> Handle]
          nsteps    \* number of actions taken

First == NL - 1
Levels == 0..First
IsBfv == Scheme = "bfv"
IsBgv == Scheme = "bgv"
IsCkks == Scheme = "ckks"
DefaultNtt == ~IsBfv
NPrimes(l) == l + 1 + PrimeOffset   \* number of primes at level l (the special prime is not part of any data level)

(***************************************************************************)
(* Scales (CKKS).  sc is the expression tree of the IEEE operations that   *)
(* produced the scale, as a string the harness evaluates in f64 and        *)
(* compares bit-for-bit: "p30" = 2^30, "m(a,b)" = a*b, "d(a,l)" = a /      *)
(* (prime dropped at level l).  sce bounds log2(scale) from above and      *)
(* scn is the normal form (multiset of factors) used to decide whether     *)
(* two scales denote the same real number.                                 *)
(***************************************************************************)
ScP(e) == "p" \o ToString(e)
ScM(a, b) == IF a = "1" THEN b ELSE IF b = "1" THEN a ELSE "m(" \o a \o "," \o b \o ")"    \* x * 1.0 = x exactly
ScD(a, l) == "d(" \o a \o "," \o ToString(l) \o ")"
\* normal form: <<power-of-two exponent, number of divisions by the prime of level 0, 1, ...>>
NfOne == [i \in 1..(NL+1) |-> 0]
NfP(e) == [NfOne EXCEPT ![1] = e]
NfM(a, b) == [i \in 1..(NL+1) |-> a[i] + b[i]]
NfD(a, l) == [a EXCEPT ![l+2] = a[l+2] + 1]

Empty == [kind |-> "none", size |-> 0, lvl |-> 0, ntt |-> FALSE, cf |-> 1, seeded |-> FALSE,
          valid |-> TRUE, sc |-> "1", sce |-> 0, scl |-> 0, scn |-> NfOne, pt |-> <<>>, nb |-> 0, mb |-> 0, exact |-> TRUE,
          cfany |-> FALSE, why |-> "", tag |-> 0, alias |-> FALSE, key |-> 1]

(***************************************************************************)
(* Noise accounting (DESIGN Appendix B), in bits, deliberately loose.      *)
(* BFV : nb bounds log2 of the invariant noise numerator V; decryption is  *)
(*       exact when nb + TBits + 1 < QLow[lvl].                            *)
(* BGV : nb bounds log2 of the centred phase W; exact when nb + 1 < QLow.  *)
(* CKKS: nb is an integer e with slot error <= 2^e (negative for small     *)
(*       errors), mb bounds log2 of the slot magnitude.                    *)
(***************************************************************************)
TBits == BitLen(T)
LogN == BitLen(N) - 1
Max2(a, b) == IF a > b THEN a ELSE b
FreshBits == BitLen(21 * (2*N + 1) + 1) + 1
NoiseFresh(sce) ==
  IF IsBfv THEN FreshBits + 1
  ELSE IF IsBgv THEN TBits + FreshBits + 1
  ELSE FreshBits + LogN + 2 - sce
ExactOk(nb, l) ==
  IF IsBfv THEN nb + TBits + 1 < QLow[l+1]
  ELSE IF IsBgv THEN nb + 1 < QLow[l+1]
  ELSE TRUE
SizeBits(s) == LogN * (s - 1)

(***************************************************************************)
(* BGV correction factor balancing, transcribed from the documented        *)
(* algorithm (extended Euclid picking the smallest |e1|+|e2|).  Only its   *)
(* post-condition is demanded of the code: cfany marks the result.         *)
(***************************************************************************)
Bal(x) == IF x > T \div 2 THEN x - T ELSE x
InvT(x) == CHOOSE y \in 1..(T-1) : Mod(x * y, T) = 1
RECURSIVE EuclidBest(_, _, _, _, _, _, _)
EuclidBest(preva, prevb, a, b, e1, e2, sum) ==
  IF a = 0 THEN <<e1, e2>>
  ELSE LET q == preva \div a
           na == preva % a
           nb == prevb - q * b
           am == Mod(na, T)
           bm == Mod(nb, T)
           ns == Abs(Bal(am)) + Abs(Bal(bm))
       IN IF am # 0 /\ ns < sum
          THEN EuclidBest(a, b, na, nb, am, bm, ns)
          ELSE EuclidBest(a, b, na, nb, e1, e2, sum)
Balance(f1, f2) ==
  LET ratio == Mod(InvT(f1) * f2, T)
      best == EuclidBest(T, 0, ratio, 1, ratio, 1, Abs(Bal(ratio)) + 1)
  IN [cf |-> Mod(best[1] * f1, T), e1 |-> best[1], e2 |-> best[2]]

(***************************************************************************)
(* Handle predicates                                                       *)
(***************************************************************************)
IsCt(h) == h.kind = "ct"
IsPt(h) == h.kind = "pt"
UsableCt(h) == IsCt(h) /\ h.valid /\ ~h.seeded /\ h.size >= 2
BadCt(h) == IsCt(h) /\ (~h.valid \/ h.seeded)      \* must be refused by every entry point
UsablePt(h) == IsPt(h) /\ h.valid
SeedFits(l) == N * NPrimes(l) >= SeedWords

\* CKKS slot values are unbounded integers; TLC's are 32-bit.  Beyond these magnitudes (only reached by long recorded
\* programs) the value is no longer tracked: it becomes VZero and the handle is marked inexact, which is sticky.
VMagC(v)   == IF IsCkks /\ v # <<>> THEN BitLen(CMaxAbs(v)) ELSE 0
SafeAdd(a, b) == VMagC(a) <= 28 /\ VMagC(b) <= 28
SafeMul(a, b) == VMagC(a) + VMagC(b) <= 28
VAdd(a, b) == IF IsCkks THEN (IF SafeAdd(a, b) THEN CAdd(a, b) ELSE CZero) ELSE PAdd(a, b)
VSub(a, b) == IF IsCkks THEN (IF SafeAdd(a, b) THEN CSub(a, b) ELSE CZero) ELSE PSub(a, b)
VNeg(a)    == IF IsCkks THEN CNeg(a) ELSE PNeg(a)
VMul(a, b) == IF IsCkks THEN (IF SafeMul(a, b) THEN CMul(a, b) ELSE CZero) ELSE PMul(a, b)
VZero      == IF IsCkks THEN CZero ELSE PZero
VOfMsg(m)  == IF IsCkks THEN CFromSeq(Msgs[m]) ELSE PFromSeq(Msgs[m])
VMag(v)    == IF IsCkks THEN BitLen(CMaxAbs(v)) ELSE 0

\* the value is tracked (and later compared) only while the instance can afford it
Tracked(h) == h.exact

ROk(h)      == [v |-> "ok", h |-> h]
RRefuse(w)  == [v |-> "refuse", h |-> [Empty EXCEPT !.why = w]]
RAny(w)     == [v |-> "any", h |-> [Empty EXCEPT !.why = w]]

(***************************************************************************)
(* Encoding / encryption / decryption                                      *)
(***************************************************************************)
\* A plaintext holding message m.  BFV/BGV: coefficient form.  CKKS: NTT form at level l, scale 2^e.
EncodeRes(m, l, e) ==
  IF IsCkks /\ e >= QHigh[l+1] THEN RRefuse("scale out of bounds")             \* C12: a scale that does not fit the level's modulus
  ELSE IF IsCkks /\ e + VMag(VOfMsg(m)) + 2 >= QLow[l+1] THEN RAny("scaled message near the modulus")
  ELSE
  ROk([Empty EXCEPT !.kind = "pt", !.lvl = IF IsCkks THEN l ELSE 0, !.ntt = IsCkks,
            !.sc = IF IsCkks THEN ScP(e) ELSE "1", !.sce = IF IsCkks THEN e ELSE 0,
            !.scl = IF IsCkks THEN e ELSE 0,
            !.scn = IF IsCkks THEN NfP(e) ELSE NfOne,
            !.pt = VOfMsg(m), !.mb = VMag(VOfMsg(m)), !.tag = IF TagMsgs THEN m ELSE 0,
            !.nb = IF IsCkks THEN LogN + 1 - e ELSE 0])

EncryptRes(p, mode) ==
  IF ~IsPt(p) THEN RAny("operand is not a plaintext")
  ELSE IF ~p.valid THEN RRefuse("invalid plaintext")
  ELSE IF (~IsCkks) /\ p.ntt THEN RAny("NTT-form plaintext given to BFV/BGV encryption")
  ELSE LET l == IF IsCkks THEN p.lvl ELSE First
       IN ROk([Empty EXCEPT !.kind = "ct", !.size = 2, !.lvl = l, !.ntt = DefaultNtt,
                    !.seeded = (mode = "skseed" /\ SeedFits(l)), !.tag = p.tag,
                    !.sc = p.sc, !.sce = p.sce, !.scl = p.scl, !.scn = p.scn, !.pt = p.pt, !.mb = p.mb,
                    !.nb = IF IsCkks THEN Max2(p.nb, NoiseFresh(p.scl)) + 1 ELSE NoiseFresh(0),
                    !.exact = p.exact])        \* a plaintext obtained by decrypting beyond the noise limit holds an unknown value

EncryptZeroRes(l, mode) ==
  ROk([Empty EXCEPT !.kind = "ct", !.size = 2, !.lvl = l, !.ntt = DefaultNtt,
            !.seeded = (mode = "skseed" /\ SeedFits(l)),
            !.sc = "1", !.sce = 0, !.scl = 0, !.scn = NfOne, !.pt = VZero, !.mb = 0, !.nb = NoiseFresh(0)])

ExpandRes(c) ==
  IF ~IsCt(c) THEN RAny("not a ciphertext")
  ELSE IF ~c.valid THEN RAny("corrupted object")
  ELSE IF ~c.seeded THEN RRefuse("no seed to expand")
  ELSE ROk([c EXCEPT !.seeded = FALSE])

\* Decryption yields a plaintext handle (coefficient form; CKKS: NTT form at the level, same scale).
DecryptRes(c) ==
  IF ~IsCt(c) THEN RAny("not a ciphertext")
  ELSE IF BadCt(c) THEN RRefuse("invalid or seeded ciphertext")
  ELSE IF c.ntt # DefaultNtt THEN RRefuse("representation not accepted by decrypt")
  ELSE IF c.key # 1 THEN RAny("ciphertext under another secret key")
  ELSE ROk([Empty EXCEPT !.kind = "pt", !.lvl = IF IsCkks THEN c.lvl ELSE 0, !.ntt = IsCkks, !.tag = c.tag,
                 !.sc = c.sc, !.sce = c.sce, !.scl = c.scl, !.scn = c.scn, !.pt = c.pt, !.mb = c.mb, !.nb = c.nb,
                 !.exact = c.exact /\ ExactOk(c.nb, c.lvl) /\ (IsCkks => c.mb + c.sce + 2 < QLow[c.lvl+1])])

(***************************************************************************)
(* Ciphertext-ciphertext operations                                        *)
(***************************************************************************)
NegateRes(a) ==
  IF ~IsCt(a) THEN RAny("not a ciphertext")
  ELSE IF BadCt(a) THEN RRefuse("invalid or seeded ciphertext")
  ELSE ROk([a EXCEPT !.pt = VNeg(a.pt)])

ScalesDisagree(a, b) == IsCkks /\ a.scn # b.scn
ScalesSame(a, b) == (~IsCkks) \/ a.sc = b.sc

AddSubRes(a, b, sub) ==
  IF ~IsCt(a) \/ ~IsCt(b) THEN RAny("not a ciphertext")
  ELSE IF BadCt(a) \/ BadCt(b) THEN RRefuse("invalid or seeded ciphertext")
  ELSE IF a.lvl # b.lvl THEN RRefuse("different levels")
  ELSE IF a.ntt # b.ntt THEN RRefuse("different representations")
  ELSE IF a.key # b.key THEN RAny("ciphertexts under different secret keys")
  ELSE IF IsCkks /\ (a.scl < 1 \/ b.scl < 1) /\ a.sc # b.sc THEN RAny("scales below 2 are outside the property's range")
  ELSE IF ScalesDisagree(a, b) THEN RRefuse("scales disagree")
  ELSE IF ~ScalesSame(a, b) THEN RAny("scales equal as reals but produced differently")
  ELSE LET sz == Max2(a.size, b.size)
           v  == IF sub THEN VSub(a.pt, b.pt) ELSE VAdd(a.pt, b.pt)
           samecf == a.cf = b.cf
           bal == IF samecf THEN [cf |-> a.cf, e1 |-> 1, e2 |-> 1] ELSE Balance(a.cf, b.cf)
           nb == IF IsBgv /\ ~samecf THEN Max2(a.nb, b.nb) + TBits + 1 ELSE Max2(a.nb, b.nb) + 1
       IN ROk([a EXCEPT !.size = sz, !.pt = v, !.cf = bal.cf, !.cfany = (a.cfany \/ b.cfany \/ ~samecf),
                      !.nb = nb, !.mb = Max2(a.mb, b.mb) + 1, !.exact = a.exact /\ b.exact /\ SafeAdd(a.pt, b.pt)])

ScaleFits(sce, l) == sce < QHigh[l+1]        \* upper bound of log2(scale) below the bit count: surely fits
ScaleOver(scl, l) == scl >= QHigh[l+1]       \* lower bound of log2(scale) at or above it: surely does not fit

MulNoise(a, b) ==
  IF IsBfv THEN Max2(Max2(a.nb + SizeBits(b.size), b.nb + SizeBits(a.size)) + LogN + TBits + 2,
                     SizeBits(a.size + b.size - 1) + 3) + 1
  ELSE IF IsBgv THEN a.nb + b.nb + LogN
  ELSE Max2(Max2(a.mb + b.nb, b.mb + a.nb), a.nb + b.nb) + 2

MultiplyRes(a, b) ==
  IF ~IsCt(a) \/ ~IsCt(b) THEN RAny("not a ciphertext")
  ELSE IF BadCt(a) \/ BadCt(b) THEN RRefuse("invalid or seeded ciphertext")
  ELSE IF a.lvl # b.lvl THEN RRefuse("different levels")
  ELSE IF a.ntt # DefaultNtt \/ b.ntt # DefaultNtt THEN RRefuse("representation not accepted by multiply")
  ELSE IF a.key # b.key THEN RAny("ciphertexts under different secret keys")
  ELSE IF a.size + b.size - 1 > 16 THEN RAny("result size above the library limit")
  ELSE IF IsCkks /\ (a.scl < 1 \/ b.scl < 1) THEN RAny("scales below 2 are outside the property's range")
  ELSE IF IsCkks /\ ScaleOver(a.scl + b.scl, a.lvl) THEN RRefuse("scale out of bounds")
  ELSE IF IsCkks /\ ~ScaleFits(a.sce + b.sce, a.lvl) THEN RAny("scale near the bound")
  ELSE ROk([a EXCEPT !.size = a.size + b.size - 1, !.pt = VMul(a.pt, b.pt),
                  !.cf = Mod(a.cf * b.cf, T), !.cfany = a.cfany \/ b.cfany,
                  !.sc = IF IsCkks THEN ScM(a.sc, b.sc) ELSE "1", !.sce = a.sce + b.sce, !.scl = a.scl + b.scl,
                  !.scn = IF IsCkks THEN NfM(a.scn, b.scn) ELSE NfOne,
                  !.nb = MulNoise(a, b), !.mb = a.mb + b.mb + 1,
                  !.exact = a.exact /\ b.exact /\ a.size + b.size - 1 <= MaxSize /\ SafeMul(a.pt, b.pt)])

\* k key switches, each adding at most 2^KsBits to the phase
KsNoiseK(a, k) ==
  IF IsBfv THEN Max2(a.nb, KsBits + BitLen(k)) + 1
  ELSE IF IsBgv THEN Max2(a.nb, KsBits + TBits + BitLen(k)) + 1
  ELSE Max2(a.nb, KsBits + LogN + BitLen(k) - a.scl) + 1
KsNoise(a) == KsNoiseK(a, 1)

RelinRes(a) ==
  IF ~IsCt(a) THEN RAny("not a ciphertext")
  ELSE IF BadCt(a) THEN RRefuse("invalid or seeded ciphertext")
  ELSE IF a.size = 2 /\ a.ntt # DefaultNtt THEN RAny("nothing to compute on")
  ELSE IF a.ntt # DefaultNtt THEN RRefuse("representation not accepted by relinearize")
  ELSE IF a.size = 2 THEN ROk(a)
  ELSE IF a.key # 1 THEN RAny("the relinearization key belongs to the context's secret key")
  ELSE IF a.size > 3 THEN RAny("only one relinearization key is generated")
  ELSE ROk([a EXCEPT !.size = 2, !.nb = KsNoise(a)])

(***************************************************************************)
(* k-ary sum and product.  add_many(h_1..h_k) = ((h_1 + h_2) + ...) + h_k; *)
(* multiply_many is the product of all operands with a relinearization     *)
(* after every binary product (so every intermediate has size 2); the      *)
(* order of the binary products is the library's business, the meaning is  *)
(* not.  Noise is charged for a chain of k-1 products, which bounds any    *)
(* tree.                                                                   *)
(***************************************************************************)
RECURSIVE FoldAdd(_, _, _)
FoldAdd(acc, hs, i) ==      \* acc is a result record [v, h]
  IF i > Len(hs) \/ acc.v # "ok" THEN acc
  ELSE FoldAdd(AddSubRes(acc.h, hs[i], FALSE), hs, i + 1)
AddManyRes(hs) ==
  IF Len(hs) = 0 THEN RAny("no operands")
  ELSE IF \E i \in 1..Len(hs) : ~IsCt(hs[i]) THEN RAny("not a ciphertext")
  ELSE IF Len(hs) = 1 /\ BadCt(hs[1]) THEN RAny("a single operand is only copied, nothing is computed on it")
  ELSE IF BadCt(hs[1]) THEN RRefuse("invalid or seeded ciphertext")
  ELSE FoldAdd(ROk(hs[1]), hs, 2)

RECURSIVE FoldMul(_, _, _)
FoldMul(acc, hs, i) ==
  IF i > Len(hs) \/ acc.v # "ok" THEN acc
  ELSE LET m == MultiplyRes(acc.h, hs[i])
       IN FoldMul(IF m.v = "ok" THEN RelinRes(m.h) ELSE m, hs, i + 1)
MultiplyManyRes(hs) ==
  IF Len(hs) = 0 THEN RAny("no operands")
  ELSE IF \E i \in 1..Len(hs) : ~IsCt(hs[i]) THEN RAny("not a ciphertext")
  ELSE IF IsCkks THEN RAny("multiply_many outside BFV/BGV")
  ELSE IF Len(hs) = 1 /\ BadCt(hs[1]) THEN RAny("a single operand is only copied, nothing is computed on it")
  ELSE IF \E i \in 1..Len(hs) : BadCt(hs[i]) THEN RRefuse("invalid or seeded ciphertext")
  ELSE IF Len(hs) = 1 THEN ROk(hs[1])
  ELSE IF \E i \in 1..Len(hs) : hs[i].size # 2 \/ hs[i].key # 1 THEN RAny("operands that need more than the one relinearization key")
  ELSE FoldMul(ROk(hs[1]), hs, 2)

(***************************************************************************)
(* Plaintext-operand operations                                            *)
(***************************************************************************)
PlainCompat(a, p) ==   \* representation pairs the statement's operations accept
  IF IsBfv THEN ~a.ntt /\ ~p.ntt
  ELSE IF IsBgv THEN a.ntt /\ ~p.ntt
  ELSE a.ntt /\ p.ntt /\ a.lvl = p.lvl

AddSubPlainRes(a, p, sub) ==
  IF ~IsCt(a) \/ ~IsPt(p) THEN RAny("wrong operand kinds")
  ELSE IF BadCt(a) \/ ~p.valid THEN RRefuse("invalid operand")
  ELSE IF IsBfv /\ a.ntt THEN RRefuse("representation not accepted by add_plain")
  ELSE IF (~IsBfv) /\ ~a.ntt THEN RRefuse("representation not accepted by add_plain")
  ELSE IF ~PlainCompat(a, p) THEN RAny("plaintext form/level outside the statement")
  ELSE IF IsCkks /\ (a.scl < 1 \/ p.scl < 1) /\ a.sc # p.sc THEN RAny("scales below 2 are outside the property's range")
  ELSE IF IsCkks /\ a.scn # p.scn THEN RRefuse("scales disagree")
  ELSE IF IsCkks /\ a.sc # p.sc THEN RAny("scales equal as reals but produced differently")
  ELSE ROk([a EXCEPT !.pt = IF sub THEN VSub(a.pt, p.pt) ELSE VAdd(a.pt, p.pt),
                  !.nb = IF IsCkks THEN Max2(a.nb, p.nb) + 1 ELSE Max2(a.nb, TBits + TBits) + 1,
                  !.mb = Max2(a.mb, p.mb) + 1, !.exact = a.exact /\ p.exact /\ SafeAdd(a.pt, p.pt)])

MulPlainRes(a, p) ==
  IF ~IsCt(a) \/ ~IsPt(p) THEN RAny("wrong operand kinds")
  ELSE IF BadCt(a) \/ ~p.valid THEN RRefuse("invalid operand")
  ELSE IF IsCkks /\ (~a.ntt \/ ~p.ntt \/ a.lvl # p.lvl) THEN RAny("plaintext form/level outside the statement")
  ELSE IF (~IsCkks) /\ p.ntt /\ p.lvl # a.lvl THEN RAny("NTT plaintext of another level")
  ELSE IF IsCkks /\ (a.scl < 1 \/ p.scl < 1) THEN RAny("scales below 2 are outside the property's range")
  ELSE IF IsCkks /\ ScaleOver(a.scl + p.scl, a.lvl) THEN RRefuse("scale out of bounds")
  ELSE IF IsCkks /\ ~ScaleFits(a.sce + p.sce, a.lvl) THEN RAny("scale near the bound")
  ELSE ROk([a EXCEPT !.pt = VMul(a.pt, p.pt),
                  !.sc = IF IsCkks THEN ScM(a.sc, p.sc) ELSE "1", !.sce = a.sce + p.sce, !.scl = a.scl + p.scl,
                  !.scn = IF IsCkks THEN NfM(a.scn, p.scn) ELSE NfOne,
                  !.nb = IF IsCkks THEN Max2(Max2(a.mb + p.nb, p.mb + a.nb), a.nb + p.nb) + 2
                         ELSE a.nb + LogN + TBits,
                  !.mb = a.mb + p.mb + 1, !.exact = a.exact /\ p.exact /\ SafeMul(a.pt, p.pt)])

(***************************************************************************)
(* Representation changes                                                  *)
(***************************************************************************)
ToNttRes(a) ==
  IF ~IsCt(a) THEN RAny("not a ciphertext")
  ELSE IF BadCt(a) THEN RRefuse("invalid or seeded ciphertext")
  ELSE IF a.ntt THEN RRefuse("already in NTT form")
  ELSE ROk([a EXCEPT !.ntt = TRUE])

FromNttRes(a) ==
  IF ~IsCt(a) THEN RAny("not a ciphertext")
  ELSE IF BadCt(a) THEN RRefuse("invalid or seeded ciphertext")
  ELSE IF ~a.ntt THEN RRefuse("not in NTT form")
  ELSE ROk([a EXCEPT !.ntt = FALSE])

PlainToNttRes(p, l) ==
  IF ~IsPt(p) THEN RAny("not a plaintext")
  ELSE IF ~p.valid THEN RRefuse("invalid plaintext")
  ELSE IF p.ntt THEN RRefuse("already in NTT form")
  ELSE IF IsCkks THEN RAny("CKKS plaintexts are always in NTT form")
  ELSE ROk([p EXCEPT !.ntt = TRUE, !.lvl = l])

(***************************************************************************)
(* Moving down the chain                                                   *)
(***************************************************************************)
\* one step of the scaling switch (BFV/BGV mod switch, CKKS rescale)
ScaleDown(a) ==
  LET l == a.lvl
      nb == IF IsBfv THEN Max2(a.nb - (PBits[l+1] - 1), SizeBits(a.size) + 1) + 1
            ELSE IF IsBgv THEN Max2(a.nb - (PBits[l+1] - 1), TBits + 1 + SizeBits(a.size)) + 1
            ELSE Max2(a.nb, LogN + SizeBits(a.size) + 1 - (a.scl - PBits[l+1])) + 1
  IN [a EXCEPT !.lvl = l - 1,
               !.cf = IF IsBgv THEN Mod(a.cf * QInvT[l+1], T) ELSE a.cf,
               !.sc = IF IsCkks THEN ScD(a.sc, l) ELSE a.sc,
               !.sce = IF IsCkks THEN a.sce - (PBits[l+1] - 1) ELSE a.sce,
               !.scl = IF IsCkks THEN a.scl - PBits[l+1] ELSE a.scl,
               !.scn = IF IsCkks THEN NfD(a.scn, l) ELSE a.scn,
               !.exact = a.exact /\ (IsCkks => a.mb + a.sce + 2 < QLow[l+1]),   \* dividing a value that wrapped around the modulus
               !.nb = nb]
\* one step of the dropping switch (CKKS mod switch): scale and message unchanged
DropDown(a) == [a EXCEPT !.lvl = a.lvl - 1]

RECURSIVE DownTo(_, _, _)
DownTo(a, l, scaling) == IF a.lvl = l THEN a
                         ELSE DownTo(IF scaling THEN ScaleDown(a) ELSE DropDown(a), l, scaling)

ModSwitchToRes(a, l) ==      \* mod_switch_to_next is l = a.lvl - 1
  IF ~IsCt(a) THEN RAny("not a ciphertext")
  ELSE IF BadCt(a) /\ l = a.lvl THEN RAny("nothing to compute on")
  ELSE IF BadCt(a) THEN RRefuse("invalid or seeded ciphertext")
  ELSE IF l > a.lvl THEN RRefuse("upward")
  ELSE IF l < 0 THEN RRefuse("past the last level")
  ELSE IF l = a.lvl THEN ROk(a)
  ELSE IF a.ntt # DefaultNtt THEN RRefuse("representation not accepted by mod switch")
  ELSE IF IsCkks /\ ScaleOver(a.scl, l) THEN RRefuse("scale does not fit the target level")
  ELSE IF IsCkks /\ ~ScaleFits(a.sce, l) THEN RAny("scale near the bound")
  ELSE ROk(DownTo(a, l, ~IsCkks))

RescaleToRes(a, l) ==
  IF ~IsCt(a) THEN RAny("not a ciphertext")
  ELSE IF ~IsCkks THEN RRefuse("rescale outside CKKS")
  ELSE IF BadCt(a) THEN RRefuse("invalid or seeded ciphertext")
  ELSE IF l > a.lvl THEN RRefuse("upward")
  ELSE IF l < 0 THEN RRefuse("past the last level")
  ELSE IF l = a.lvl /\ (a.lvl = 0 \/ ~a.ntt) THEN RAny("nothing to compute on")
  ELSE IF ~a.ntt THEN RRefuse("representation not accepted by rescale")
  ELSE IF l = a.lvl THEN ROk(a)
  ELSE ROk(DownTo(a, l, TRUE))

ModSwitchPlainToRes(p, l) ==
  IF ~IsPt(p) THEN RAny("not a plaintext")
  ELSE IF ~p.valid THEN RRefuse("invalid plaintext")
  ELSE IF ~p.ntt THEN RAny("coefficient-form plaintext")
  ELSE IF l > p.lvl THEN RRefuse("upward")
  ELSE IF l < 0 THEN RRefuse("past the last level")
  ELSE IF l = p.lvl THEN ROk(p)
  ELSE IF IsCkks /\ ScaleOver(p.scl, l) THEN RRefuse("scale does not fit the target level")
  ELSE IF IsCkks /\ ~ScaleFits(p.sce, l) THEN RAny("scale near the bound")
  ELSE ROk([p EXCEPT !.lvl = l])

(***************************************************************************)
(* Galois automorphisms, rotations, conjugation                            *)
(***************************************************************************)
\* slot-level meaning of the element for CKKS vectors: 3^s rotates left by s, 2N-1 conjugates
RECURSIVE LogThree(_, _)
LogThree(g, s) == IF Pow3(s) = g THEN s ELSE IF s >= Half THEN -1 ELSE LogThree(g, s+1)
GaloisValue(v, g) ==
  IF ~IsCkks THEN PAuto(v, g)
  ELSE IF LogThree(g, 0) >= 0 THEN CRot(v, LogThree(g, 0))
  ELSE CConj(CRot(v, LogThree(Mod(g * (M2 - 1), M2), 0)))

GaloisRes(a, g) ==
  IF ~IsCt(a) THEN RAny("not a ciphertext")
  ELSE IF BadCt(a) THEN RRefuse("invalid or seeded ciphertext")
  ELSE IF a.key # 1 THEN RAny("the Galois keys belong to the context's secret key")
  ELSE IF a.ntt # DefaultNtt THEN RAny("key switching outside the scheme's default representation")
  ELSE IF ~HasKeyFor(g) THEN RRefuse("no Galois key for the element")
  ELSE IF a.size > 2 THEN RAny("size above 2")
  ELSE ROk([a EXCEPT !.pt = GaloisValue(a.pt, g), !.nb = KsNoise(a)])

\* rotation by a step; the key set decides whether it is done directly or composed (NAF) - same meaning
RotateRes(a, s) ==
  IF ~IsCt(a) THEN RAny("not a ciphertext")
  ELSE IF BadCt(a) THEN RRefuse("invalid or seeded ciphertext")
  ELSE IF a.key # 1 THEN RAny("the Galois keys belong to the context's secret key")
  ELSE IF a.ntt # DefaultNtt THEN RAny("key switching outside the scheme's default representation")
  ELSE IF a.size > 2 THEN RAny("size above 2")
  ELSE IF s = 0 \/ Abs(s) >= Half THEN RAny("step outside 0<|s|<N/2")
  ELSE ROk([a EXCEPT !.pt = GaloisValue(a.pt, EltOfStep(s)), !.nb = KsNoiseK(a, LogN + 1)])

ConjRes(a) ==       \* rotate_columns (BFV/BGV) / complex_conjugate (CKKS)
  IF ~IsCt(a) THEN RAny("not a ciphertext")
  ELSE IF BadCt(a) THEN RRefuse("invalid or seeded ciphertext")
  ELSE IF a.key # 1 THEN RAny("the Galois keys belong to the context's secret key")
  ELSE IF a.ntt # DefaultNtt THEN RAny("key switching outside the scheme's default representation")
  ELSE IF a.size > 2 THEN RAny("size above 2")
  ELSE ROk([a EXCEPT !.pt = GaloisValue(a.pt, M2 - 1), !.nb = KsNoise(a)])

(***************************************************************************)
(* Switching to another secret key (C04).  key = 1: the context's secret   *)
(* key s; key = 2: a second secret key s2 of the same context.  The        *)
(* key-switching key is generated by the key generator of s for s2, i.e.   *)
(* it turns a two-component ciphertext under s2 into one under s.          *)
(***************************************************************************)
EncryptOtherRes(p, mode) ==
  LET r == EncryptRes(p, mode) IN IF r.v = "ok" THEN ROk([r.h EXCEPT !.key = 2]) ELSE r

KeySwitchRes(a) ==
  IF ~IsCt(a) THEN RAny("not a ciphertext")
  ELSE IF BadCt(a) THEN RRefuse("invalid or seeded ciphertext")
  ELSE IF a.size # 2 THEN RAny("only two-component ciphertexts are switched")
  ELSE IF a.key # 2 THEN RAny("not under the key the switching key was generated for")
  ELSE IF a.ntt # DefaultNtt THEN RAny("key switching outside the scheme's default representation")
  ELSE ROk([a EXCEPT !.key = 1, !.nb = KsNoise(a)])

(***************************************************************************)
(* Serialization round trip inside a program (C14: the restored object is  *)
(* interchangeable with the original): writing a ciphertext in the compact *)
(* (mode "compact") or full (mode "full") format and reading it back gives *)
(* the same ciphertext; a seed-compressed one comes back expanded.         *)
(***************************************************************************)
ReloadRes(a) ==
  IF ~IsCt(a) THEN RAny("not a ciphertext")
  ELSE IF ~a.valid THEN RAny("corrupted object")
  ELSE ROk([a EXCEPT !.seeded = FALSE])

(***************************************************************************)
(* Single-field corruptions (C06)                                          *)
(***************************************************************************)
Modes == {"pk", "pkd", "sk", "skseed"}   \* pk/pkd: value-returning / destination form of public-key encryption
Corruptions == {"residue", "parms", "size1", "size17", "scale", "cf", "buffer"}
CorruptRes(a, f) ==
  IF ~IsCt(a) THEN RAny("not a ciphertext")
  ELSE ROk([a EXCEPT !.valid = FALSE, !.why = f])

(***************************************************************************)
(* Transition system                                                       *)
(*                                                                         *)
(* hist is an observation variable (the behaviour so far, in the form the  *)
(* replayer consumes); model instances hide it and the tracked values      *)
(* behind a VIEW.                                                          *)
(***************************************************************************)
VARIABLE hist
allvars == <<pool, nsteps, hist>>

NoAct == [op |-> "", a |-> "", b |-> "", p |-> "", lvl |-> 0, mode |-> "", m |-> 0, e |-> 0, g |-> 0, s |-> 0, f |-> "", ops |-> <<>>]

\* JSON-friendly projection of a handle: exactly the fields the harness projects from the real object
ValSeq(h) == IF h.kind = "none" \/ h.pt = <<>> THEN <<>>
             ELSE IF IsCkks THEN CToSeq(h.pt) ELSE PToSeq(h.pt)
Proj(h) == [kind |-> h.kind, size |-> h.size, lvl |-> h.lvl, ntt |-> h.ntt, cf |-> h.cf, cfany |-> h.cfany,
            seeded |-> h.seeded, valid |-> h.valid, why |-> h.why, sc |-> h.sc, val |-> ValSeq(h),
            nb |-> h.nb, key |-> h.key,
            cmp |-> (h.exact /\ (h.kind = "ct" => ExactOk(h.nb, h.lvl))
                             /\ (IsCkks /\ h.kind # "none" => h.mb + h.sce + 2 < QLow[h.lvl+1] /\ h.scl >= 1))]

\* typestate of a handle (what decides the verdict of every action)
TypeOf(h) == <<h.kind, h.size, h.lvl, h.ntt, h.cf, h.seeded, h.valid, h.why, h.sc, h.tag, h.alias, h.key>>

Init == /\ pool = [s \in CtSlots \cup PtSlots |-> Empty]
        /\ nsteps = 0
        /\ hist = <<>>

\* CKKS: the magnitude bound of a result is read off the exact value the specification carries
Norm(h) == IF IsCkks /\ h.kind # "none" /\ h.pt # <<>> THEN [h EXCEPT !.mb = VMag(h.pt)] ELSE h
AliasOf(act) ==
  IF act.op \in {"add", "sub", "multiply"} THEN act.a = act.b \/ (pool[act.a].alias /\ pool[act.b].alias)
  ELSE IF act.op \in {"add_many", "multiply_many"} THEN \A i \in 1..Len(act.ops) : pool[act.ops[i]].alias
  ELSE IF act.a # "" /\ act.op # "decrypt" THEN pool[act.a].alias
  ELSE FALSE
Apply(act, res0, d) ==
  LET res == [res0 EXCEPT !.h = [Norm(res0.h) EXCEPT !.alias = TagAlias /\ res0.v = "ok" /\ res0.h.kind = "ct" /\ AliasOf(act)]] IN
  /\ nsteps < MaxSteps
  /\ nsteps' = nsteps + 1
  /\ hist' = Append(hist, [act |-> act, dst |-> d, v |-> res.v, out |-> Proj(res.h)])
  /\ pool' = IF res.v = "ok" THEN [pool EXCEPT ![d] = res.h] ELSE pool

Encode   == \E d \in PtSlots, m \in 1..Len(Msgs), l \in (IF IsCkks THEN Levels ELSE {0}),
               e \in (IF IsCkks THEN Scales ELSE {0}) :
              Apply([NoAct EXCEPT !.op = "encode", !.m = m, !.lvl = l, !.e = e], EncodeRes(m, l, e), d)
Encrypt  == \E d \in CtSlots, p \in PtSlots, mode \in Modes :
              Apply([NoAct EXCEPT !.op = "encrypt", !.p = p, !.mode = mode], EncryptRes(pool[p], mode), d)
EncryptZero == \E d \in CtSlots, l \in Levels, mode \in Modes :
              Apply([NoAct EXCEPT !.op = "encrypt_zero", !.lvl = l, !.mode = mode], EncryptZeroRes(l, mode), d)
EncryptOther == \E d \in CtSlots, p \in PtSlots, mode \in Modes :
              Apply([NoAct EXCEPT !.op = "encrypt_other", !.p = p, !.mode = mode], EncryptOtherRes(pool[p], mode), d)
Reload   == \E a \in CtSlots, d \in CtSlots, mode \in {"compact", "full"} :
              Apply([NoAct EXCEPT !.op = "reload", !.a = a, !.mode = mode], ReloadRes(pool[a]), d)
KeySwitch == \E a \in CtSlots, d \in CtSlots : Apply([NoAct EXCEPT !.op = "keyswitch", !.a = a], KeySwitchRes(pool[a]), d)
Expand   == \E a \in CtSlots : Apply([NoAct EXCEPT !.op = "expand", !.a = a], ExpandRes(pool[a]), a)
Decrypt  == \E a \in CtSlots, d \in PtSlots : Apply([NoAct EXCEPT !.op = "decrypt", !.a = a], DecryptRes(pool[a]), d)
Negate   == \E a \in CtSlots, d \in CtSlots : Apply([NoAct EXCEPT !.op = "negate", !.a = a], NegateRes(pool[a]), d)
Add      == \E a \in CtSlots, b \in CtSlots, d \in CtSlots :
              Apply([NoAct EXCEPT !.op = "add", !.a = a, !.b = b], AddSubRes(pool[a], pool[b], FALSE), d)
Sub      == \E a \in CtSlots, b \in CtSlots, d \in CtSlots :
              Apply([NoAct EXCEPT !.op = "sub", !.a = a, !.b = b], AddSubRes(pool[a], pool[b], TRUE), d)
Multiply == \E a \in CtSlots, b \in CtSlots, d \in CtSlots :
              Apply([NoAct EXCEPT !.op = "multiply", !.a = a, !.b = b], MultiplyRes(pool[a], pool[b]), d)
Square   == \E a \in CtSlots, d \in CtSlots :
              Apply([NoAct EXCEPT !.op = "square", !.a = a], MultiplyRes(pool[a], pool[a]), d)
\* operand lists of length 1..MaxArity over the ciphertext slots (repetitions allowed)
MaxArity == 4
OpLists == UNION {[1..k -> CtSlots] : k \in 1..MaxArity}
AddMany  == \E ops \in OpLists, d \in CtSlots :
              Apply([NoAct EXCEPT !.op = "add_many", !.ops = ops], AddManyRes([i \in 1..Len(ops) |-> pool[ops[i]]]), d)
MultiplyMany == \E ops \in OpLists, d \in CtSlots :
              Apply([NoAct EXCEPT !.op = "multiply_many", !.ops = ops], MultiplyManyRes([i \in 1..Len(ops) |-> pool[ops[i]]]), d)
Relin    == \E a \in CtSlots, d \in CtSlots : Apply([NoAct EXCEPT !.op = "relinearize", !.a = a], RelinRes(pool[a]), d)
AddPlain == \E a \in CtSlots, p \in PtSlots, d \in CtSlots :
              Apply([NoAct EXCEPT !.op = "add_plain", !.a = a, !.p = p], AddSubPlainRes(pool[a], pool[p], FALSE), d)
SubPlain == \E a \in CtSlots, p \in PtSlots, d \in CtSlots :
              Apply([NoAct EXCEPT !.op = "sub_plain", !.a = a, !.p = p], AddSubPlainRes(pool[a], pool[p], TRUE), d)
MulPlain == \E a \in CtSlots, p \in PtSlots, d \in CtSlots :
              Apply([NoAct EXCEPT !.op = "multiply_plain", !.a = a, !.p = p], MulPlainRes(pool[a], pool[p]), d)
ToNtt    == \E a \in CtSlots, d \in CtSlots : Apply([NoAct EXCEPT !.op = "to_ntt", !.a = a], ToNttRes(pool[a]), d)
FromNtt  == \E a \in CtSlots, d \in CtSlots : Apply([NoAct EXCEPT !.op = "from_ntt", !.a = a], FromNttRes(pool[a]), d)
PlainToNtt == \E p \in PtSlots, l \in Levels, d \in PtSlots :
              Apply([NoAct EXCEPT !.op = "plain_to_ntt", !.p = p, !.lvl = l], PlainToNttRes(pool[p], l), d)
ModSwitchNext == \E a \in CtSlots, d \in CtSlots :
              Apply([NoAct EXCEPT !.op = "mod_switch_next", !.a = a], ModSwitchToRes(pool[a], pool[a].lvl - 1), d)
ModSwitchTo == \E a \in CtSlots, l \in Levels, d \in CtSlots :
              Apply([NoAct EXCEPT !.op = "mod_switch_to", !.a = a, !.lvl = l], ModSwitchToRes(pool[a], l), d)
RescaleNext == \E a \in CtSlots, d \in CtSlots :
              Apply([NoAct EXCEPT !.op = "rescale_next", !.a = a], RescaleToRes(pool[a], pool[a].lvl - 1), d)
RescaleTo == \E a \in CtSlots, l \in Levels, d \in CtSlots :
              Apply([NoAct EXCEPT !.op = "rescale_to", !.a = a, !.lvl = l], RescaleToRes(pool[a], l), d)
ModSwitchPlainNext == \E p \in PtSlots, d \in PtSlots :
              Apply([NoAct EXCEPT !.op = "mod_switch_plain_next", !.p = p], ModSwitchPlainToRes(pool[p], pool[p].lvl - 1), d)
ModSwitchPlainTo == \E p \in PtSlots, l \in Levels, d \in PtSlots :
              Apply([NoAct EXCEPT !.op = "mod_switch_plain_to", !.p = p, !.lvl = l], ModSwitchPlainToRes(pool[p], l), d)
Galois   == \E a \in CtSlots, g \in Elts, d \in CtSlots :
              Apply([NoAct EXCEPT !.op = "apply_galois", !.a = a, !.g = g], GaloisRes(pool[a], g), d)
Rotate   == \E a \in CtSlots, s \in Steps, d \in CtSlots :
              Apply([NoAct EXCEPT !.op = "rotate", !.a = a, !.s = s], RotateRes(pool[a], s), d)
Conj     == \E a \in CtSlots, d \in CtSlots : Apply([NoAct EXCEPT !.op = "conjugate", !.a = a], ConjRes(pool[a]), d)
Corrupt  == \E a \in CtSlots, f \in Corruptions : Apply([NoAct EXCEPT !.op = "corrupt", !.a = a, !.f = f], CorruptRes(pool[a], f), a)

Next == \/ Encode \/ Encrypt \/ EncryptZero \/ Expand \/ Decrypt
        \/ Negate \/ Add \/ Sub \/ Multiply \/ Square \/ Relin
        \/ AddPlain \/ SubPlain \/ MulPlain
        \/ ToNtt \/ FromNtt \/ PlainToNtt
        \/ ModSwitchNext \/ ModSwitchTo \/ RescaleNext \/ RescaleTo
        \/ ModSwitchPlainNext \/ ModSwitchPlainTo
        \/ Galois \/ Rotate \/ Conj \/ Corrupt \/ EncryptOther \/ KeySwitch \/ AddMany \/ MultiplyMany \/ Reload

Spec == Init /\ [][Next]_allvars

(***************************************************************************)
(* Invariants of the design                                                *)
(***************************************************************************)
HandleOk(h) ==
  \/ h.kind = "none"
  \/ /\ h.kind = "pt"
  \/ /\ h.kind = "ct"
     /\ h.size \in 2..16
     /\ h.lvl \in Levels
     /\ h.cf \in 1..(T-1)
     /\ (~IsBgv => h.cf = 1)
     /\ (~IsCkks => h.sc = "1")
     /\ (h.seeded => h.size = 2)

Valid == \A s \in DOMAIN pool : HandleOk(pool[s])

\* every produced ciphertext is usable by a later operation unless it was corrupted or is still seeded
Closed == \A s \in CtSlots : IsCt(pool[s]) /\ pool[s].valid /\ ~pool[s].seeded => UsableCt(pool[s])

\* moving along the chain only goes down, and ends exactly on the requested level (C05)
ChainOps == {"mod_switch_next", "mod_switch_to", "rescale_next", "rescale_to"}
LevelRule ==
  [][LET st == hist'[Len(hist')]
     IN (st.v = "ok" /\ st.act.op \in ChainOps)
          => /\ pool'[st.dst].lvl <= pool[st.act.a].lvl
             /\ (st.act.op \in {"mod_switch_to", "rescale_to"} => pool'[st.dst].lvl = st.act.lvl)
             /\ (st.act.op \in {"mod_switch_next", "rescale_next"} => pool'[st.dst].lvl = pool[st.act.a].lvl - 1)]_allvars

\* sizes follow the documented rule
SizeRule ==
  [][LET st == hist'[Len(hist')]
     IN st.v = "ok" =>
          /\ (st.act.op = "multiply" => pool'[st.dst].size = pool[st.act.a].size + pool[st.act.b].size - 1)
          /\ (st.act.op = "square" => pool'[st.dst].size = 2 * pool[st.act.a].size - 1)
          /\ (st.act.op = "relinearize" => pool'[st.dst].size = 2)
          /\ (st.act.op \in {"add", "sub"} => pool'[st.dst].size = Max2(pool[st.act.a].size, pool[st.act.b].size))]_allvars

\* a refused or unconstrained call changes nothing
RefusalPure ==
  [][hist'[Len(hist')].v # "ok" => pool' = pool]_allvars

\* the Balance transcription meets its post-condition (checked once, in the initial state, on the set S;
\* it is state-level on purpose: TLC evaluates constant-level definitions eagerly at start-up)
BalanceOkOn(S) == nsteps = 0 =>
             \A f1 \in S, f2 \in S :
               LET r == Balance(f1, f2)
               IN /\ r.cf \in 1..(T-1) /\ r.e1 \in 1..(T-1) /\ r.e2 \in 1..(T-1)
                  /\ Mod(r.e1 * f1, T) = r.cf /\ Mod(r.e2 * f2, T) = r.cf

=============================================================================
