--------------------------- MODULE Trace_Serialize ---------------------------
(***************************************************************************)
(* Trace validation for C14: every recorded serialization event must       *)
(* follow the wire grammar of Serialize.tla (write calls in the order and  *)
(* widths of Layout(shape), sizes equal) and report exact round trips.     *)
(***************************************************************************)
EXTENDS Serialize, Json, IOUtils

Rec == ndJsonDeserialize(IOEnv.TRACE)

VARIABLES l, bad
tvars == <<l, bad>>

TInit == l = 1 /\ bad = <<>>
TNext == /\ l <= Len(Rec)
         /\ l' = l + 1
         /\ bad' = IF SerEventOk(Rec[l]) THEN bad ELSE Append(bad, <<l, 1>>)
TSpec == TInit /\ [][TNext]_tvars

Done == l = Len(Rec) + 1
Report == Done => PrintT(<<"BAD", ToJson([bad |-> bad, lines |-> Len(Rec)])>>)
AllHold == Done => bad = <<>>
==============================================================================
