----------------------------- MODULE Trace_Arith -----------------------------
(***************************************************************************)
(* Trace validation of recorded arithmetic events (C08 and the exact-      *)
(* integer parts of other properties).  The trace is an NDJSON file, one   *)
(* batch of events per line.  Every event is judged by the definitions in  *)
(* WordArith; failures are accumulated (line, index) so that one run       *)
(* reports every event that does not satisfy its definition.               *)
(***************************************************************************)
EXTENDS Rns, Json, IOUtils

Rec == ndJsonDeserialize(IOEnv.TRACE)

VARIABLES l, bad
tvars == <<l, bad>>

RECURSIVE FailIdx(_, _, _)
FailIdx(facts, i, ln) ==
  IF i > Len(facts) THEN <<>>
  ELSE (IF RnsHolds(facts[i]) THEN <<>> ELSE << <<ln, i>> >>) \o FailIdx(facts, i+1, ln)

RECURSIVE FailRows(_, _, _, _)
FailRows(m, rows, i, ln) ==
  IF i > Len(rows) THEN <<>>
  ELSE (IF Small(m, rows[i]) THEN <<>> ELSE << <<ln, i>> >>) \o FailRows(m, rows, i+1, ln)

Failures(r, ln) ==
  CASE r.ev = "small" -> FailRows(r.m, r.rows, 1, ln)
    [] r.ev = "big"   -> FailIdx(r.facts, 1, ln)
    [] r.ev = "batch" -> IF BatchEventOk(r) THEN <<>> ELSE << <<ln, 1>> >>
    [] r.ev = "batch_big" -> IF BatchBigOk(r) THEN <<>> ELSE << <<ln, 1>> >>
    [] OTHER -> << <<ln, 0>> >>

TInit == l = 1 /\ bad = <<>>
TNext == /\ l <= Len(Rec)
         /\ l' = l + 1
         /\ bad' = bad \o Failures(Rec[l], l)
TSpec == TInit /\ [][TNext]_tvars

Done == l = Len(Rec) + 1
Report == Done => PrintT(<<"BAD", ToJson([bad |-> bad, lines |-> Len(Rec)])>>)
AllHold == Done => bad = <<>>
==============================================================================
