---------------------------- MODULE Trace_Conv2d ----------------------------
(***************************************************************************)
(* Binding of Conv2d.tla: the REAL helper's block choice (visible in the   *)
(* number of encoded polynomials), the encoded input tiles and weight      *)
(* blocks (decoded back to coefficient vectors) and the transported-term   *)
(* list are compared with the model's Search / index maps, for structured  *)
(* tensors with pairwise distinct entries.                                 *)
(***************************************************************************)
EXTENDS Conv2d, Json, IOUtils, TLC
Rec == ndJsonDeserialize(IOEnv.TRACE)
VARIABLES l, bad

RECURSIVE SumSet(_, _)
SumSet(f, S) == IF S = {} THEN 0 ELSE LET x == CHOOSE x \in S : TRUE IN f[x] + SumSet(f, S \ {x})

LayoutOk(e) ==
  LET s == [bs |-> e.bs, ci |-> e.ci, co |-> e.co, h |-> e.h, w |-> e.wd, kh |-> e.kh, kw |-> e.kw]
      bl == Search(s, e.objective)
      X(b, c, y, x) == e.x[((b * s.ci + c) * s.h + y) * s.w + x + 1]
      K(o, c, ky, kx) == e.w[((o * s.ci + c) * s.kh + ky) * s.kw + kx + 1]
      nbb == CeilDiv(s.bs, bl[1])  nth == TilesH(s, bl)  ntw == TilesW(s, bl)
      ncb == CeilDiv(s.ci, bl[2])  nob == CeilDiv(s.co, bl[3])
      \* model of one encoded input polynomial: batch block bb, tile (th, tw), input-channel block cb
      InPoly(bb, th, tw, cb) ==
        LET pix == {q \in (0..(s.bs-1)) \X (0..(s.ci-1)) \X RowsOfTile(s, bl, th) \X ColsOfTile(s, bl, tw) :
                      q[1] \div bl[1] = bb /\ q[2] \div bl[2] = cb}
        IN [p \in 0..(N-1) |-> SumSet([q \in pix |-> IF InIdx(s, bl, q[1], q[2], q[3], q[4], th, tw) = p THEN X(q[1], q[2], q[3], q[4]) ELSE 0], pix)]
      WtPoly(ob, cb) ==
        LET ks == {q \in (0..(s.co-1)) \X (0..(s.ci-1)) \X (0..(s.kh-1)) \X (0..(s.kw-1)) :
                      q[1] \div bl[3] = ob /\ q[2] \div bl[2] = cb}
        IN [p \in 0..(N-1) |-> SumSet([q \in ks |-> IF WtIdx(s, bl, q[1], q[2], q[3], q[4]) = p THEN K(q[1], q[2], q[3], q[4]) ELSE 0], ks)]
      yh == Yh(s, bl)  yw == Yw(s, bl)
      nterms == bl[1] * bl[3] * yh * yw
  IN /\ e.N = N /\ ~e.panicked
     /\ Len(e.enc_in) = nbb * nth * ntw
     /\ \A bb \in 0..(nbb-1), th \in 0..(nth-1), tw \in 0..(ntw-1) :
          LET grp == e.enc_in[(bb * nth + th) * ntw + tw + 1] IN
          /\ Len(grp) = ncb
          /\ \A cb \in 0..(ncb-1) : LET m == InPoly(bb, th, tw, cb) IN \A p \in 0..(N-1) : grp[cb+1][p+1] = m[p]
     /\ Len(e.enc_w) = nob
     /\ \A ob \in 0..(nob-1) :
          /\ Len(e.enc_w[ob+1]) = ncb
          /\ \A cb \in 0..(ncb-1) : LET m == WtPoly(ob, cb) IN \A p \in 0..(N-1) : e.enc_w[ob+1][cb+1][p+1] = m[p]
     \* transported terms in the order the helper lists them: batch, output channel, row, column of one block
     /\ Len(e.out_terms) = nterms
     /\ \A q \in 0..(nterms-1) :
          LET b == q \div (bl[3] * yh * yw)  o == (q \div (yh * yw)) % bl[3]  i == (q \div yw) % yh  j == q % yw
          IN e.out_terms[q+1] = OutIdx(s, bl, b, o, i, j)

TInit == l = 1 /\ bad = <<>> /\ done = FALSE
TNext == /\ l <= Len(Rec) /\ l' = l + 1 /\ UNCHANGED done
         /\ bad' = IF LayoutOk(Rec[l]) THEN bad ELSE Append(bad, <<l, 1>>)
TSpec == TInit /\ [][TNext]_<<l, bad, done>>
Done == l = Len(Rec) + 1
Report == Done => PrintT(<<"BAD", ToJson([bad |-> bad, lines |-> Len(Rec)])>>)
AllHold == Done => bad = <<>>
=============================================================================
