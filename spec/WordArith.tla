------------------------------ MODULE WordArith ------------------------------
(***************************************************************************)
(* Mathematical definitions of the word-level modular primitives and the   *)
(* multi-word unsigned helpers (property C08), stated on values:           *)
(*   - Small(...)  : on native TLC integers, for the exhaustive sweep over  *)
(*                   all moduli below 2^7 with all operand pairs;          *)
(*   - Holds(e)    : on BigNat values, for 2..61-bit moduli, 64/128-bit    *)
(*                   operands and 1..8-word integers.  Quotients are       *)
(*                   untrusted hints.                                      *)
(* An event e is a record [op, x, n] where x is a sequence of BigNat       *)
(* numbers and n a sequence of small integers; which positions mean what   *)
(* is documented per case.                                                 *)
(***************************************************************************)
EXTENDS BigNat, TLC

Word == BPow2(64)
WordsMod(w) == BPow2(64 * w)

Mod(a, m) == a % m
RECURSIVE PowI(_, _, _)
PowI(b, e, m) == IF e = 0 THEN 1 % m ELSE Mod(b * PowI(b, e-1, m), m)
RECURSIVE GcdI(_, _)
GcdI(a, b) == IF b = 0 THEN a ELSE GcdI(b, a % b)

(***************************************************************************)
(* Native-integer row: <<a, b, c, add, sub, neg, mul, mulop, lazy, mac,    *)
(* inc, dec, div2, e, exp, invok, inv, gcd, red>> for modulus m            *)
(* (a, b < m; c < 2^14; e < 64; red = reduction of a*b+c seen as 64 bit).  *)
(***************************************************************************)
Small(m, r) ==
  LET a == r[1]  b == r[2]  c == r[3] IN
  /\ r[4] = Mod(a + b, m)
  /\ r[5] = Mod(a - b, m)
  /\ r[6] = Mod(0 - a, m)
  /\ r[7] = Mod(a * b, m)
  /\ r[8] = Mod(a * b, m)
  /\ r[9] < 2 * m /\ Mod(r[9], m) = Mod(a * b, m)
  /\ r[10] = Mod(a * b + c, m)
  /\ r[11] = Mod(a + 1, m)
  /\ r[12] = Mod(a - 1, m)
  /\ (m % 2 = 1 => r[13] < m /\ Mod(2 * r[13], m) = a)
  /\ r[15] = PowI(a, r[14], m)
  /\ (r[16] = 1) = (GcdI(a, m) = 1 /\ a # 0)
  /\ (r[16] = 1 => r[17] < m /\ Mod(r[17] * a, m) = 1 % m)
  /\ r[18] = GcdI(a, b)
  /\ r[19] = Mod(a * b + c, m)

(***************************************************************************)
(* BigNat events                                                           *)
(***************************************************************************)
RECURSIVE SumInts(_, _)
SumInts(t, k) == IF k = 0 THEN 0 ELSE t[k] + SumInts(t, k - 1)
AbsI(v) == IF v < 0 THEN 0 - v ELSE v
RECURSIVE IsPow2(_)
IsPow2(v) == v = 1 \/ (v > 1 /\ v % 2 = 0 /\ IsPow2(v \div 2))
X(e, i) == e.x[i]
NI(e, i) == e.n[i]

\* square-and-multiply replay with quotient hints: bits little-endian, hints consumed in order
\* state <<power, acc, hint index>>; mirrors the mathematical recurrence, not the code
RECURSIVE ExpChain(_, _, _, _, _, _, _)
ExpChain(bits, i, power, acc, m, hints, h) ==
  IF i > Len(bits) THEN <<acc, h>>
  ELSE LET useMul == bits[i] = 1
           acc2 == IF useMul THEN BSub(BMul(power, acc), BMul(hints[h], m)) ELSE acc
           okA  == IF useMul THEN BLe(BMul(hints[h], m), BMul(power, acc)) /\ BLt(acc2, m) ELSE TRUE
           h2   == IF useMul THEN h + 1 ELSE h
           last == i = Len(bits)
           pw2  == IF last THEN power ELSE BSub(BMul(power, power), BMul(hints[h2], m))
           okP  == IF last THEN TRUE ELSE BLe(BMul(hints[h2], m), BMul(power, power)) /\ BLt(pw2, m)
           h3   == IF last THEN h2 ELSE h2 + 1
       IN IF okA /\ okP THEN ExpChain(bits, i+1, pw2, acc2, m, hints, h3) ELSE <<<<Base>>, 0>>   \* poison: not a valid number

RECURSIVE DotSum(_, _, _)
DotSum(a, b, i) == IF i > Len(a) THEN <<>> ELSE BAdd(BMul(a[i], b[i]), DotSum(a, b, i+1))
RECURSIVE ProdAll(_, _)
ProdAll(a, i) == IF i > Len(a) THEN BOne ELSE BMul(a[i], ProdAll(a, i+1))

Holds(e) ==
  CASE e.op = "add_mod" ->      \* x = <<a, b, m, r>>, a, b < m
         /\ BLt(X(e,4), X(e,3))
         /\ (BAdd(X(e,1), X(e,2)) = X(e,4) \/ BAdd(X(e,1), X(e,2)) = BAdd(X(e,4), X(e,3)))
    [] e.op = "sub_mod" ->      \* a - b mod m
         /\ BLt(X(e,4), X(e,3))
         /\ (X(e,1) = BAdd(X(e,2), X(e,4)) \/ BAdd(X(e,1), X(e,3)) = BAdd(X(e,2), X(e,4)))
    [] e.op = "neg_mod" ->      \* x = <<a, m, r>>, a < m
         /\ BLt(X(e,3), X(e,2))
         /\ (IF BIsZero(X(e,1)) THEN BIsZero(X(e,3)) ELSE BAdd(X(e,1), X(e,3)) = X(e,2))
    [] e.op = "div2_mod" ->     \* x = <<a, m, r>>, m odd, a < m :  2r = a (mod m)
         /\ BLt(X(e,3), X(e,2))
         /\ (BMulLimb(X(e,3), 2) = X(e,1) \/ BMulLimb(X(e,3), 2) = BAdd(X(e,1), X(e,2)))
    [] e.op = "red" ->          \* x = <<v, m, r, k>> : r = v mod m   (64-bit, 128-bit and multi-word reductions)
         DivModCert(X(e,1), X(e,2), X(e,4), X(e,3))
    [] e.op = "mul_mod" ->      \* x = <<a, b, m, r, k>>
         DivModCert(BMul(X(e,1), X(e,2)), X(e,3), X(e,5), X(e,4))
    [] e.op = "mul_operand" ->  \* x = <<x, y, m, quotient, qrem, r, k>> : quotient = floor(y*2^64/m), r = x*y mod m
         /\ DivModCert(BMul(X(e,2), Word), X(e,3), X(e,4), X(e,5))
         /\ DivModCert(BMul(X(e,1), X(e,2)), X(e,3), X(e,7), X(e,6))
    [] e.op = "mul_operand_lazy" -> \* x = <<x, y, m, r, k>> : r == x*y (mod m), r < 2m
         /\ CongCert(BMul(X(e,1), X(e,2)), X(e,3), X(e,5), X(e,4))
         /\ BLt(X(e,4), BMulLimb(X(e,3), 2))
    [] e.op = "mac" ->          \* x = <<a, b, c, m, r, k>> : r = a*b + c mod m
         DivModCert(BAdd(BMul(X(e,1), X(e,2)), X(e,3)), X(e,4), X(e,6), X(e,5))
    [] e.op = "dot" ->          \* x = <<m, r, k>>, e.a, e.b sequences of numbers
         DivModCert(DotSum(e.a, e.b, 1), X(e,1), X(e,3), X(e,2))
    [] e.op = "exp" ->          \* x = <<a, m, r>>, e.bits (little endian, top bit 1), e.hints
         LET res == ExpChain(e.bits, 1, X(e,1), BOne, X(e,2), e.hints, 1)
         IN res[2] = Len(e.hints) + 1 /\ res[1] = X(e,3)
    [] e.op = "inv" ->          \* x = <<a, m, r, k>> : r*a = 1 + k*m, r < m
         /\ BLt(X(e,3), X(e,2))
         /\ BMul(X(e,3), X(e,1)) = BAdd(BMul(X(e,4), X(e,2)), BOne)
    [] e.op = "noinv" ->        \* x = <<a, m, d, a', m'>> : common divisor d > 1 (or a = 0)
         \/ BIsZero(X(e,1))
         \/ /\ BLt(BOne, X(e,3))
            /\ BMul(X(e,3), X(e,4)) = X(e,1)
            /\ BMul(X(e,3), X(e,5)) = X(e,2)
    [] e.op = "gcd" ->          \* x = <<a, b, g, a', b', s, t>> : g|a, g|b and s*a = t*b + g or t*b = s*a + g
         /\ BMul(X(e,3), X(e,4)) = X(e,1)
         /\ BMul(X(e,3), X(e,5)) = X(e,2)
         /\ \/ BMul(X(e,6), X(e,1)) = BAdd(BMul(X(e,7), X(e,2)), X(e,3))
            \/ BMul(X(e,7), X(e,2)) = BAdd(BMul(X(e,6), X(e,1)), X(e,3))
    [] e.op = "coprime" ->      \* the gcd fact, and are_coprime = (g <= 1)
         /\ BMul(X(e,3), X(e,4)) = X(e,1)
         /\ BMul(X(e,3), X(e,5)) = X(e,2)
         /\ \/ BMul(X(e,6), X(e,1)) = BAdd(BMul(X(e,7), X(e,2)), X(e,3))
            \/ BMul(X(e,7), X(e,2)) = BAdd(BMul(X(e,6), X(e,1)), X(e,3))
         /\ NI(e,1) = (IF BLe(X(e,3), BOne) THEN 1 ELSE 0)
    [] e.op = "xgcd" ->         \* x = <<a, b, g, |s|, |t|, a', b'>>, n = <<s < 0, t < 0>> : g | a, g | b, g = s*a + t*b (signed)
         /\ BMul(X(e,3), X(e,6)) = X(e,1)
         /\ BMul(X(e,3), X(e,7)) = X(e,2)
         /\ LET sa == BMul(X(e,4), X(e,1))  tb == BMul(X(e,5), X(e,2)) IN
            CASE NI(e,1) = 0 /\ NI(e,2) = 0 -> BAdd(sa, tb) = X(e,3)
              [] NI(e,1) = 0 /\ NI(e,2) = 1 -> sa = BAdd(tb, X(e,3))
              [] NI(e,1) = 1 /\ NI(e,2) = 0 -> tb = BAdd(sa, X(e,3))
              [] OTHER -> FALSE
    [] e.op = "naf" ->          \* n = <<v>>, e.t = the signed powers of two, ascending: they sum to v and no two are adjacent
         /\ SumInts(e.t, Len(e.t)) = NI(e,1)
         /\ \A i \in 1..Len(e.t) : IsPow2(AbsI(e.t[i]))
         /\ \A i \in 1..(Len(e.t) - 1) : AbsI(e.t[i+1]) \div 4 >= AbsI(e.t[i])
    \* ---------------- multi-word helpers: n = <<word count, flag>> ----------------
    [] e.op = "add_uint" ->     \* x = <<a, b, r>>, n = <<w, carry>> : a + b = r + carry * 2^(64w)
         /\ BLt(X(e,3), WordsMod(NI(e,1)))
         /\ NI(e,2) \in {0, 1}
         /\ BAdd(X(e,1), X(e,2)) = BAdd(X(e,3), BMulLimb(WordsMod(NI(e,1)), NI(e,2)))
    [] e.op = "sub_uint" ->     \* a + borrow * 2^(64w) = b + r
         /\ BLt(X(e,3), WordsMod(NI(e,1)))
         /\ NI(e,2) \in {0, 1}
         /\ BAdd(X(e,1), BMulLimb(WordsMod(NI(e,1)), NI(e,2))) = BAdd(X(e,2), X(e,3))
    [] e.op = "neg_uint" ->     \* x = <<a, r>>, two's complement in w words
         /\ BLt(X(e,2), WordsMod(NI(e,1)))
         /\ (IF BIsZero(X(e,1)) THEN BIsZero(X(e,2)) ELSE BAdd(X(e,1), X(e,2)) = WordsMod(NI(e,1)))
    [] e.op = "mul_uint" ->     \* x = <<a, b, r, hi>>, n = <<result words>> : a*b = r + hi * 2^(64 rw), r < 2^(64 rw)
         /\ BLt(X(e,3), WordsMod(NI(e,1)))
         /\ BMul(X(e,1), X(e,2)) = BAdd(X(e,3), BMul(X(e,4), WordsMod(NI(e,1))))
    [] e.op = "div_uint" ->     \* x = <<num, den, quo, rem>>
         DivModCert(X(e,1), X(e,2), X(e,3), X(e,4))
    [] e.op = "shl" ->          \* x = <<a, r, hi>>, n = <<w, s>> : a * 2^s = r + hi * 2^(64w)
         /\ BLt(X(e,2), WordsMod(NI(e,1)))
         /\ BMul(X(e,1), BPow2(NI(e,2))) = BAdd(X(e,2), BMul(X(e,3), WordsMod(NI(e,1))))
    [] e.op = "shr" ->          \* x = <<a, r, low>>, n = <<w, s>> : a = r * 2^s + low, low < 2^s
         /\ BLt(X(e,3), BPow2(NI(e,2)))
         /\ X(e,1) = BAdd(BMul(X(e,2), BPow2(NI(e,2))), X(e,3))
    [] e.op = "cmp" ->          \* x = <<a, b>>, n = <<sign + 1>>
         BCmp(X(e,1), X(e,2)) + 1 = NI(e,1)
    [] e.op = "half_up" ->      \* x = <<a, r>> : r = ceil(a / 2)
         \/ BMulLimb(X(e,2), 2) = X(e,1)
         \/ BMulLimb(X(e,2), 2) = BAdd(X(e,1), BOne)
    [] e.op = "mul_many" ->     \* e.a = operands, x = <<r>>
         ProdAll(e.a, 1) = X(e,1)
    [] e.op = "bits" ->         \* x = <<a>>, n = <<significant bit count>>
         BBitLen(X(e,1)) = NI(e,1)
    [] e.op = "cmpflags" ->     \* x = <<a, b>>, n = <<gt, ge, lt, le, eq>> as 0/1
         LET c == BCmp(X(e,1), X(e,2)) IN
         /\ (NI(e,1) = 1) = (c = 1)  /\ (NI(e,2) = 1) = (c >= 0)
         /\ (NI(e,3) = 1) = (c = -1) /\ (NI(e,4) = 1) = (c <= 0)
         /\ (NI(e,5) = 1) = (c = 0)
    [] e.op = "flag" ->         \* n = <<1>> : a boolean observation that must be true (e.g. "the call returned")
         NI(e,1) = 1
    [] OTHER -> Print(<<"unknown op", e.op>>, FALSE)
=============================================================================
