#!/bin/bash
# run_some.sh <tier> <ID>...: run the listed checks and print exit status and time (stderr tail kept on failure)
tier=$1; shift
cd "$(dirname "$0")/.."
for c in "$@"; do
  s=$(date +%s)
  out=$(bin/check $c $tier 2>work_stderr_$c.log)
  rc=$?
  e=$(date +%s)
  echo "$c $tier exit=$rc $((e-s))s $(echo "$out" | grep -c '^VIOLATION') violations $(echo "$out" | grep -c '^KNOWN-FINDING') known"
  if [ $rc -ne 0 ]; then tail -5 work_stderr_$c.log; fi
  rm -f work_stderr_$c.log
done
