"""bin/check <ID> --replay <file>: re-run one recorded violation against the current /repo."""
import json, os
from common import *


def replay(prop, path):
    build_harness()
    r = json.load(open(path))["replay"]
    if "behaviour" in r:
        import he_model
        wd = workdir("replay_" + prop)
        res = he_model.replay_behaviours(r["pset"], r["msgs"], [r["behaviour"]], wd, nproc=1)
        for beh, out in res:
            print(json.dumps(out))
            if out["status"] not in ("ok", "diverged"):
                print("VIOLATION property=%s replay=%s" % (prop, path))
                return 1
        return 0
    if "program" in r:
        import he_trace
        rc = he_trace.replay_program(prop, r)
        if rc:
            print("VIOLATION property=%s replay=%s" % (prop, path))
        return rc
    if "cmd" in r:
        out = hcv(r["cmd"])
        print(out[-2000:])
        bad = any(json.loads(l).get("status") not in (None, "ok") for l in out.splitlines() if l.startswith("{"))
        if bad:
            print("VIOLATION property=%s replay=%s" % (prop, path))
            return 1
        return 0
    log("replay file has no replayable payload")
    return 2
