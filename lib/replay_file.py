"""bin/check <ID> --replay <file>: re-run one recorded violation against the current /repo."""
import json, os
from common import *


def replay(prop, path):
    build_harness()
    r = json.load(open(path))["replay"]
    if "behaviour" in r:
        import he_model
        wd = workdir("replay_" + prop)
        res = he_model.replay_behaviours(r["pset"], r["msgs"], [r["behaviour"]], wd, nproc=1)
        for beh, out in res:
            print(json.dumps(out))
            if out["status"] not in ("ok", "diverged"):
                print("VIOLATION property=%s replay=%s" % (prop, path))
                return 1
        return 0
    if "program" in r:
        import he_trace
        rc = he_trace.replay_program(prop, r)
        if rc:
            print("VIOLATION property=%s replay=%s" % (prop, path))
        return rc
    if "cmd" in r:
        out = hcv(r["cmd"])
        print(out[-2000:])
        bad = any(json.loads(l).get("status") not in (None, "ok") for l in out.splitlines() if l.startswith("{"))
        if bad:
            print("VIOLATION property=%s replay=%s" % (prop, path))
            return 1
        return 0
    # recorded events (trace validation): the exploration that produced the record is deterministic in (tier, seed);
    # it is run again on the current tree and the violation counts as reproduced when the same signature is reported again
    import subprocess, sys
    full = json.load(open(path))
    tier, seed, sig = full.get("tier", "quick"), full.get("seed", 1), full["signature"]
    env = dict(os.environ, VERIF_SEED=str(seed), VERIF_REPLAY_RUN="1")
    r = subprocess.run([os.path.join(ROOT, "bin", "check"), prop, tier], cwd=ROOT, env=env, capture_output=True, text=True)
    if r.returncode == 2:
        log(r.stderr[-1500:])
        return 2
    again = []
    for l in r.stdout.splitlines():
        if l.startswith("VIOLATION"):
            f = l.split("replay=")[1].strip()
            try:
                if json.load(open(f))["signature"] == sig:
                    again.append(f)
            except Exception:
                pass
    if again:
        print("VIOLATION property=%s replay=%s" % (prop, path))
        return 1
    return 0
