#!/bin/bash
# full seeded regression: every seeded change against the quick check of its own property
cd /verif
for d in seeded/C*_m*; do
  id=$(basename $d); p=${id%%_*}
  timeout 1500 python3 lib/seedtest.py $id $p ${1:-quick} 2>&1 | grep -v conda | tail -3
  git -C /repo checkout -- . 
done
echo SEEDREG-DONE
