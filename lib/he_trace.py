"""impl -> spec direction for C01-C06: seeded-random programs recorded from the real library (hcv he-drive) are
validated by TLC against spec/Trace_HE.tla, which re-uses the result operators of spec/HE.tla (DESIGN.md 4.5)."""
import json, os, struct, time
from common import *
from he_model import *


def write_trace_instance(wd, name, info, ct_slots, pt_slots, msgs, scales, steps, elts, keyset):
    cfgp = write_instance(wd, name, info, actions=["Encode"], ct_slots=ct_slots, pt_slots=pt_slots, max_steps=0, max_size=16, msgs=msgs,
                          scales=scales, steps=steps, elts=elts, keyset=keyset, invariants=False, emit=False)
    p = os.path.join(wd, name + ".tla")
    s = open(p).read().replace("EXTENDS HE, Json", "EXTENDS Trace_HE")
    open(p, "w").write(s)
    cfg = [l for l in open(cfgp).read().splitlines() if not l.startswith("VIEW") and not l.startswith("SPECIFICATION")]
    cfg = ["SPECIFICATION TSpec"] + cfg + ["INVARIANT PoolValid", "INVARIANT Report", "INVARIANT AllHold"]
    open(cfgp, "w").write("\n".join(cfg) + "\n")
    return cfgp


def eval_scale(expr, info, off):
    """IEEE evaluation of a scale expression tree of HE.tla (python floats are IEEE doubles)."""
    primes = [int(p) for p in info["primes"]]
    pos = [0]

    def parse():
        c = expr[pos[0]]
        if c == "1":
            pos[0] += 1
            return 1.0
        if c == "p":
            pos[0] += 1
            st = pos[0]
            while pos[0] < len(expr) and (expr[pos[0]].isdigit() or expr[pos[0]] == "-"):
                pos[0] += 1
            return 2.0 ** int(expr[st:pos[0]])
        if c == "m":
            pos[0] += 2
            x = parse()
            pos[0] += 1
            y = parse()
            pos[0] += 1
            return x * y
        if c == "d":
            pos[0] += 2
            x = parse()
            pos[0] += 1
            st = pos[0]
            while pos[0] < len(expr) and expr[pos[0]].isdigit():
                pos[0] += 1
            l = int(expr[st:pos[0]])
            pos[0] += 1
            return x / float(primes[l + off])
        raise ToolError("bad scale expression %s" % expr)
    return parse()


def f64_bits(x):
    return struct.unpack("<Q", struct.pack("<d", x))[0]


def tlc_event(raw, ckks):
    if raw["ev"] == "reset":
        return {"ev": "reset"}
    o = raw.get("obs") or {}
    val = o.get("val")
    obs = {"kind": o.get("kind", "none"), "size": o.get("size", 0), "lvl": o.get("lvl", 0), "ntt": o.get("ntt", False), "cf": int(o.get("cf", 1)),
           "seeded": o.get("seeded", False), "valid": o.get("valid", False), "ivalid": o.get("ivalid", False),
           "scale1": o.get("scale_bits") == str(f64_bits(1.0)),
           "hasbudget": "budget" in o, "budget": int(o.get("budget", 0)),
           "hasval": (val is not None) and not ckks, "val": [int(v) for v in val] if (val is not None and not ckks) else []}
    if obs["cf"] >= 1 << 31:
        obs["cf"] = 0
    return {"ev": "call", "act": raw["act"], "dst": raw["dst"], "refused": raw["refused"], "forms": raw["forms"], "obs": obs}


def _setup(workname, name, pset, msgs, scales, glk, ct_slots, pt_slots):
    from he_checks import msgs_for
    info = pset_info(pset)
    ms = msgs_for(info, msgs)
    n = info["n"]
    steps = [s for s in range(-(n // 2 - 1), n // 2) if s != 0]
    elts = list(range(1, 2 * n, 2))
    wd = workdir(workname)
    cfgp = write_trace_instance(wd, "TR_" + name, info, list(ct_slots), list(pt_slots), ms, scales, steps, elts, glk)
    dcfg = os.path.join(wd, "drive.json")
    json.dump({"pset": pset, "msgs": ms, "glk": glk, "scales": list(scales), "steps": steps, "elts": elts, "ct_slots": list(ct_slots), "pt_slots": list(pt_slots)}, open(dcfg, "w"))
    return info, ms, wd, cfgp, dcfg


def validate_recorded(name, info, raw, wd, cfgp, timeout=1500):
    """TLC (Trace_HE) over the recorded lines. Returns (bad, verdict counts, per-op counts, number of CKKS comparisons, tlc result);
    bad = [line number (1-based), why, verdict of the specification, reason of the specification]."""
    ckks = info["scheme"] == "ckks"
    tp = os.path.join(wd, "trace.ndjson")
    open(tp, "w").write("\n".join(json.dumps(tlc_event(r, ckks)) for r in raw) + "\n")
    vl, xl, bad, nlines = {}, {}, [], [None]

    def on_line(tag, obj):
        # TLC re-evaluates the actions when it prints an error trace: lines are keyed by their position
        if tag == "V":
            vl[obj["l"]] = obj
        elif tag == "X":
            xl[obj["l"]] = obj
        elif tag == "BAD":
            bad.extend(obj["bad"])
            nlines[0] = obj["lines"]
    r = run_tlc("TR_" + name, cfgp, wd, workers=1, timeout=timeout, env={"TRACE": tp}, on_line=on_line,
                java_opts="-Xss1g -Dtlc2.tool.queue.IStateQueue=StateDeque", heap="4g")
    if r["violated"] not in (None, "AllHold"):
        log("\n".join(r["out"][-40:]))
        raise ToolError("Trace_HE (%s): %s" % (name, r["error"]))
    if r["violated"] is None and not r["ok"]:
        log("\n".join(r["out"][-40:]))
        raise ToolError("Trace_HE (%s) failed to run: %s" % (name, r["error"]))
    if nlines[0] != len(raw) or r["distinct"] != len(raw) + 1:
        raise ToolError("Trace_HE (%s): trace not consumed completely (%s lines read, %d states, %d recorded)" % (name, nlines[0], r["distinct"], len(raw)))
    verdicts, ops = {}, {}
    reasons = verdicts.setdefault("reasons", {})
    for obj in vl.values():
        k = obj["v"] + ("/refused" if obj["refused"] else "/returned")
        verdicts[k] = verdicts.get(k, 0) + 1
        if obj["cmp"]:
            verdicts["values_compared"] = verdicts.get("values_compared", 0) + 1
        if obj["v"] != "ok":
            rk = obj["v"] + ": " + obj["why"]
            reasons[rk] = reasons.get(rk, 0) + 1
        ops[obj["op"]] = ops.get(obj["op"], 0) + 1
    xs = [xl[k] for k in sorted(xl)]
    # CKKS: scale bit pattern and slot values against what the specification printed
    off = level_constants(info)["PrimeOffset"]
    for x in xs:
        rl = raw[x["l"] - 1]
        o = rl["obs"]
        want = eval_scale(x["sc"], info, off)
        if str(f64_bits(want)) != o["scale_bits"]:
            bad.append([x["l"], "scale: recorded %r, the specification implies %r (%s)" % (struct.unpack("<d", struct.pack("<Q", int(o["scale_bits"])))[0], want, x["sc"]), "ok", ""])
            continue
        if x["cmp"] and not (o["kind"] == "ct" and o.get("seeded")):
            ov = o.get("val")
            if ov is None:
                bad.append([x["l"], "value could not be observed", "ok", ""])
                continue
            tol = 2.0 ** x["nb"]
            for i, ev in enumerate(x["val"]):
                if not (abs(ov[i][0] - ev[0]) <= tol and abs(ov[i][1] - ev[1]) <= tol):
                    bad.append([x["l"], "slot %d: recorded %s, expected %s within 2^%d" % (i, ov[i], ev, x["nb"]), "ok", ""])
                    break
    return sorted(bad, key=lambda z: z[0]), verdicts, ops, len(xs), r


def run_trace(rep, name, pset, *, nprogs, length, msgs=None, scales=(30,), glk="default", ct_slots=("c1", "c2", "c3"), pt_slots=("p1", "p2"), timeout=1500):
    """Record `nprogs` programs of `length` calls on parameter set `pset`, validate them against Trace_HE.tla."""
    info, ms, wd, cfgp, dcfg = _setup("%s_trace_%s" % (rep.prop, name), name, pset, msgs, scales, glk, ct_slots, pt_slots)
    raw = [json.loads(l) for l in hcv(["he-drive", dcfg, "random", str(rep.seed), str(nprogs), str(length)], timeout=timeout).splitlines()]
    bad, verdicts, ops, nx, r = validate_recorded(name, info, raw, wd, cfgp, timeout)
    # report: one violation per rejected line, the replay is the recorded program up to that line
    starts = [i for i, rl in enumerate(raw) if rl["ev"] == "reset"]
    for b in bad:
        li = b[0] - 1
        st = max(s for s in starts if s <= li)
        rl = raw[li]
        sig = {"trace": True, "scheme": info["scheme"], "op": rl["act"]["op"], "why": b[1] if len(b[1]) < 80 else b[1][:80], "expected": b[2]}
        rep.violation(sig, {"pset": pset, "msgs": ms, "glk": glk, "scales": list(scales), "ct_slots": list(ct_slots), "pt_slots": list(pt_slots),
                            "why": b[1], "spec_verdict": b[2], "spec_reason": b[3] if len(b) > 3 else "",
                            "program": [{"act": x["act"], "dst": x["dst"], "recorded": {k: v for k, v in x.items() if k not in ("ev", "act", "dst")}} for x in raw[st + 1:li + 1]]})
    rep.cov.setdefault("trace_runs", []).append({"instance": name, "pset": pset, "programs": nprogs, "calls": len(raw) - len(starts), "verdicts": verdicts,
                                                 "per_action": ops, "ckks_numeric_comparisons": nx, "rejected": len(bad), "tlc_wall_s": round(r["wall_s"], 1)})
    rep.cov["states"] = rep.cov.get("states", 0) + r["distinct"]
    rep.cov["transitions"] = rep.cov.get("transitions", 0) + r["generated"]
    rep.cov["traces_validated_against_impl"] = rep.cov.get("traces_validated_against_impl", 0) + nprogs
    rep.cov["recorded_calls_validated"] = rep.cov.get("recorded_calls_validated", 0) + len(raw) - len(starts)
    log("[%s] trace %s: %d programs, %d calls, verdicts %s, %d rejected (TLC %.1fs)" % (rep.prop, name, nprogs, len(raw) - len(starts), {k: v for k, v in verdicts.items() if k != "reasons"}, len(bad), r["wall_s"]))


def replay_program(prop, rp):
    """bin/check --replay of a trace violation: the recorded program is executed again on the current library and validated again."""
    info, ms, wd, cfgp, dcfg = _setup("replay_%s_trace" % prop, "replay", rp["pset"], rp["msgs"], tuple(rp.get("scales", (30,))), rp.get("glk", "default"),
                                     rp.get("ct_slots", ("c1", "c2", "c3")), rp.get("pt_slots", ("p1", "p2")))
    pf = os.path.join(wd, "program.json")
    json.dump([{"act": x["act"], "dst": x["dst"]} for x in rp["program"]], open(pf, "w"))
    raw = [json.loads(l) for l in hcv(["he-drive", dcfg, "program", pf]).splitlines()]
    bad, verdicts, ops, nx, r = validate_recorded("replay", info, raw, wd, cfgp)
    for b in bad:
        print(json.dumps({"line": b[0], "op": raw[b[0] - 1]["act"]["op"], "why": b[1], "spec_verdict": b[2], "spec_reason": b[3] if len(b) > 3 else ""}))
    return 1 if bad else 0
