"""Raw arithmetic events (values as u64 numbers / word arrays) -> TLC events (BigNat limb arrays + untrusted
quotient hints), and validation of the resulting trace with spec/Trace_Arith.tla."""
import json, os, math
from common import *

BASE = 32768


def val(v):
    """u64 number or little-endian list of u64 words -> python int"""
    if isinstance(v, list):
        r = 0
        for i, w in enumerate(v):
            r |= int(w) << (64 * i)
        return r
    if isinstance(v, str):
        return int(v)
    return int(v)


def limbs(n):
    if n < 0:
        # cannot be represented: use a value that no identity can accept
        return [BASE]
    out = []
    while n:
        out.append(n % BASE)
        n //= BASE
    return out


def is_panic(v):
    return isinstance(v, dict) and "panic" in v


def flag(ok, what):
    return {"op": "flag", "x": [], "n": [1 if ok else 0], "what": what}


def egcd(a, b):
    if b == 0:
        return (a, 1, 0)
    g, x, y = egcd(b, a % b)
    return (g, y, x - (a // b) * y)


def convert_fact(f):
    """returns a TLC fact (dict with op, x (limb arrays), n (small ints)) describing the raw fact"""
    op = f["op"]
    raw = f.get("x", [])
    if f.get("panic") or any(is_panic(v) for v in raw) or any(is_panic(v) for v in f.get("n", [])) or any(is_panic(v) for v in f.get("flags", [])):
        return flag(False, "%s panicked on operands inside its documented domain" % op)
    x = [val(v) for v in raw]
    n = [int(v) for v in f.get("n", [])]
    L = lambda *vs: [limbs(v) for v in vs]
    if op in ("add_mod", "sub_mod", "neg_mod", "div2_mod", "half_up", "neg_uint", "add_uint", "sub_uint", "cmp", "bits", "div_uint"):
        return {"op": op, "x": L(*x), "n": n}
    if op == "inc_mod":
        a, m, r = x
        return {"op": "add_mod", "x": L(a, 1 % m if m > 1 else 0, m, r), "n": n}
    if op == "dec_mod":
        a, m, r = x
        return {"op": "sub_mod", "x": L(a, 1, m, r), "n": n}
    if op == "mul_mod":
        a, b, m, r = x
        return {"op": op, "x": L(a, b, m, r, a * b // m), "n": n}
    if op in ("mac", "mac_operand"):
        a, b, c, m, r = x
        return {"op": "mac", "x": L(a, b, c, m, r, (a * b + c) // m), "n": n}
    if op == "mul_operand":
        xx, y, m, quot, r = x
        return {"op": op, "x": L(xx, y, m, quot, (y << 64) - quot * m, r, xx * y // m), "n": n}
    if op == "mul_operand_lazy":
        xx, y, m, r = x
        return {"op": op, "x": L(xx, y, m, r, (xx * y - r) // m if xx * y >= r else 0), "n": n}
    if op == "red":
        v, m, r = x
        fact = {"op": op, "x": L(v, m, r, v // m), "n": n}
        if "rest_zero" in f and f["rest_zero"] is not True:
            return flag(False, "modulo_uint_inplace must zero the upper words")
        return fact
    if op == "inv":
        a, m = x
        if f.get("ok"):
            r = int(f["r"])
            return {"op": "inv", "x": L(a, m, r, (r * a - 1) // m if r * a >= 1 else 0), "n": n}
        d = math.gcd(a, m)
        return {"op": "noinv", "x": L(a, m, d, a // d if d else 0, m // d if d else 0), "n": n}
    if op == "exp":
        a, m, r = x
        e = int(f["e"])
        bits = []
        while e:
            bits.append(e & 1)
            e >>= 1
        hints = []
        power, acc = a, 1
        for i, b in enumerate(bits):
            if b:
                hints.append(limbs(power * acc // m))
                acc = power * acc % m
            if i != len(bits) - 1:
                hints.append(limbs(power * power // m))
                power = power * power % m
        return {"op": "exp", "x": L(a, m, r), "n": n, "bits": bits, "hints": hints}
    if op == "gcd":
        a, b, g = x
        if g == 0:
            return flag(False, "gcd returned 0")
        gg, s, t = egcd(a, b)
        # s*a + t*b = gg ; present as s*a = t'*b + g or t'*b = s'*a + g with non-negative coefficients
        if s >= 0:
            S, T = s, -t
        else:
            S, T = -s, t
        # normalise to non-negative hints
        while S < 0 or T < 0:
            S += b // gg
            T += a // gg
        return {"op": "gcd", "x": L(a, b, g, a // g, b // g, S, T), "n": n}
    if op == "xgcd":
        a, b, g, ax, ay = x
        if g == 0:
            return flag(a == 0 and b == 0, "xgcd returned 0")
        return {"op": "xgcd", "x": L(a, b, g, ax, ay, a // g, b // g), "n": n}
    if op == "coprime":
        a, b, g = x
        if g == 0:
            return flag(False, "gcd returned 0")
        gg, s_, t_ = egcd(a, b)
        S, T = (s_, -t_) if s_ >= 0 else (-s_, t_)
        while S < 0 or T < 0:
            S += b // gg
            T += a // gg
        return {"op": "coprime", "x": L(a, b, g, a // g, b // g, S, T), "n": n}
    if op == "naf":
        return {"op": "naf", "x": [], "n": [int(f["v"])], "t": [int(v) for v in f["terms"]]}
    if op == "dot":
        m, r = x
        a = [int(v) for v in f["a"]]
        b = [int(v) for v in f["b"]]
        s = sum(p * q for p, q in zip(a, b))
        return {"op": "dot", "x": L(m, r, s // m), "n": n, "a": [limbs(v) for v in a], "b": [limbs(v) for v in b]}
    if op == "mul_uint":
        a, b, r = x
        rw = n[0]
        return {"op": op, "x": L(a, b, r, (a * b) >> (64 * rw)), "n": n}
    if op == "shl":
        a, r = x
        w, s = n
        return {"op": op, "x": L(a, r, (a << s) >> (64 * w)), "n": n}
    if op == "shr":
        a, r = x
        w, s = n
        return {"op": op, "x": L(a, r, a & ((1 << s) - 1)), "n": n}
    if op == "cmpflags":
        return {"op": op, "x": L(*x), "n": [1 if v is True else 0 for v in f["flags"]]}
    if op == "mul_many":
        return {"op": op, "x": L(*x), "n": n, "a": [limbs(int(v)) for v in f["a"]]}
    raise ToolError("unknown raw op %s" % op)


def convert_ntt_big(o):
    """raw ntt_big event -> list of (fact, description)"""
    n, q, root = o["n"], int(o["q"]), int(o["root"])
    pw = [1]
    hints = []
    for k in range(2 * n - 1):
        hints.append(limbs(pw[-1] * root // q))
        pw.append(pw[-1] * root % q)
    lpw = [limbs(x) for x in pw]
    out = [({"op": "ntt_root", "x": [limbs(q), limbs(root)], "n": [n], "pw": lpw, "hints": hints, "roots": [limbs(int(r)) for r in o["roots"]]},
            {"op": "ntt_root", "n": n, "q": q, "root": root, "roots": o["roots"]})]

    def brev(x, bits):
        r = 0
        for _ in range(bits):
            r = (r << 1) | (x & 1)
            x >>= 1
        return r
    logn = n.bit_length() - 1
    for u in o["units"]:
        desc = {"op": "ntt_" + u["kind"], "n": n, "q": q, "j": u["j"], "c": u["c"]}
        if u.get("panic"):
            out.append((flag(False, "transform panicked"), desc))
            continue
        c, j = int(u["c"]), u["j"]
        vals = [int(v) for v in u["out"]]
        if u["kind"] in ("fwd", "lazy"):
            bound = 1 if u["kind"] == "fwd" else 4
            hs = []
            for i in range(n):
                e = ((2 * brev(i, logn) + 1) * j) % (2 * n)
                prod = c * pw[e]
                hs.append(limbs((prod - vals[i]) // q if prod >= vals[i] else 0))
            out.append(({"op": "ntt_unit", "x": [limbs(q), limbs(c)], "n": [n, j, bound], "pw": lpw, "out": [limbs(v) for v in vals], "hints": hs}, desc))
        else:
            bound = 1 if u["kind"] == "inv" else 2
            cc = c % q
            hs = [limbs(abs(vals[i] - cc) // q) if i == j else [] for i in range(n)]
            out.append(({"op": "ntt_inv_unit", "x": [limbs(q), limbs(cc)], "n": [n, j, bound], "out": [limbs(v) for v in vals], "hints": hs}, desc))
    return out


def convert_rns(f):
    """raw RNS fact -> TLC fact with limbs and hints (python big integers; untrusted)"""
    op = f["op"]
    L = limbs
    if op == "flagpanic":
        return flag(False, f["what"] + " panicked")
    q = [int(v) for v in f["q"]]
    Q = 1
    for m in q:
        Q *= m
    if op == "rns_crt":
        X = val(f["x"][0])
        r = [int(v) for v in f["r"]]
        back = val(f["back"]) if f.get("back") else -1
        if len(r) != len(q) or back != X:
            return flag(False, "compose(decompose(x)) != x or wrong length")
        return {"op": op, "q": [L(m) for m in q], "r": [L(v) for v in r], "x": [L(X)], "h": [L(X // m) for m in q], "n": []}
    if op in ("rns_conv", "rns_mtilde"):
        X = val(f["x"][0])
        p = [int(v) for v in f["p"]]
        o = [int(v) for v in f["o"]]
        Y = X
        extra = {}
        if op == "rns_mtilde":
            mt = int(f["mt"])
            Y = (X * mt) % Q
        # the true error term of the fast conversion: sum_i [y_i * (Q/q_i)^-1]_{q_i} * (Q/q_i) = Y + a*Q
        tot = 0
        for m in q:
            pm = Q // m
            tot += ((Y % m) * pow(pm % m, -1, m) % m) * pm if m > 1 else 0
        a = (tot - Y) // Q if len(q) > 1 else 0
        a = max(0, min(a, 10 ** 6))
        h = [L((Y + a * Q) // m) for m in p]
        fact = {"op": op, "q": [L(m) for m in q], "p": [L(m) for m in p], "o": [L(v) for v in o], "h": h, "n": [a]}
        if op == "rns_mtilde":
            fact["x"] = [L(X), L(mt), L(Y), L(X * mt // Q)]
        else:
            fact["x"] = [L(X)]
        return fact
    if op == "rns_mrq":
        p = [int(v) for v in f["p"]]
        c = [int(v) for v in f["c"]]
        o = [int(v) for v in f["o"]]
        mt, cmt = int(f["mt"]), int(f["cmt"])
        rm = (-cmt * pow(Q % mt, -1, mt)) % mt
        hm = (rm * Q + cmt) // mt
        neg = 2 * rm >= mt
        rabs = mt - rm if neg else rm
        hs, lges = [], []
        for j, m in enumerate(p):
            if neg:
                Lv, Rv = o[j] * mt + Q * rabs, c[j]
            else:
                Lv, Rv = o[j] * mt, c[j] + Q * rabs
            lges.append(Lv >= Rv)
            hs.append(L(abs(Lv - Rv) // m))
        return {"op": op, "x": [L(Q), L(mt), L(cmt), L(rm), L(hm)], "p": [L(m) for m in p], "c": [L(v) for v in c], "o": [L(v) for v in o], "h": hs, "lge": lges, "n": []}
    if op == "rns_floor":
        X = val(f["x"][0])
        p = [int(v) for v in f["p"]]
        o = [int(v) for v in f["o"]]
        fl, rem = X // Q, X % Q
        # a is determined by the first output modulus (the same a must fit all of them)
        a = (fl - o[0]) % p[0]
        if a >= len(q):
            a = 0
        hs, lges = [], []
        for j, m in enumerate(p):
            Lv, Rv = o[j] + a, fl
            lges.append(Lv >= Rv)
            hs.append(L(abs(Lv - Rv) // m))
        return {"op": op, "x": [L(X), L(fl), L(rem)], "q": [L(m) for m in q], "p": [L(m) for m in p], "o": [L(v) for v in o], "h": hs, "lge": lges, "n": [a]}
    if op == "rns_sk":
        mag = val(f["x"][0])
        neg = bool(f["neg"])
        o = [int(v) for v in f["o"]]
        hs = [L((mag + v) // m) if (neg and mag) else L(mag // m) for v, m in zip(o, q)]
        return {"op": op, "x": [L(mag)], "n": [1 if neg else 0], "q": [L(m) for m in q], "o": [L(v) for v in o], "h": hs}
    if op == "rns_divround":
        X = val(f["x"][0])
        o = [int(v) for v in f["o"]]
        qk = q[-1]
        half = qk // 2
        v = (X + half) // qk
        return {"op": op, "x": [L(X), L(v), L((X + half) % qk), L(half)], "q": [L(m) for m in q], "o": [L(x) for x in o], "h": [L(v // m) for m in q[:-1]], "n": []}
    if op == "rns_modtdiv":
        X = val(f["x"][0])
        o = [int(v) for v in f["o"]]
        t = int(f["t"])
        qk = q[-1]
        fl, delta = X // qk, X % qk
        u = (-delta * pow(qk % t, -1, t)) % t
        ht = (delta + qk * u) // t
        hs, lges = [], []
        for i, m in enumerate(q[:-1]):
            Lv, Rv = o[i] + u, fl
            lges.append(Lv >= Rv)
            hs.append(L(abs(Lv - Rv) // m))
        return {"op": op, "x": [L(X), L(fl), L(delta), L(t), L(u), L(ht)], "q": [L(m) for m in q], "o": [L(v) for v in o], "h": hs, "lge": lges, "n": []}
    if op == "rns_scaleround":
        X, t, m, e, out = int(f["X"]), int(f["t"]), int(f["m"]), int(f["e"]), int(f["out"])
        return {"op": op, "x": [L(Q), L(t), L(X), L(m), L(abs(e)), L(out)], "n": [1 if e < 0 else 0]}
    if op == "rns_modt":
        X, t, c, out = int(f["X"]), int(f["t"]), int(f["c"]), int(f["out"])
        neg = c < 0
        mag = abs(c)
        kq = (mag + X) // Q if (neg and mag) else mag // Q
        kt = (mag + out) // t if (neg and mag) else mag // t
        return {"op": op, "x": [L(Q), L(t), L(X), L(mag), L(kq), L(out), L(kt)], "n": [1 if neg else 0]}
    raise ToolError("unknown rns op %s" % op)


def describe(f):
    d = {k: v for k, v in f.items() if k in ("op", "x", "n", "e", "a", "b", "variant", "ok", "r", "m", "v", "terms")}
    return d


def convert_lines(raw_lines):
    """returns (tlc_lines, index) where index[(line, i)] = raw fact for reporting; panics of whole rows become flags"""
    out = []
    index = {}
    for rl in raw_lines:
        o = json.loads(rl)
        ln = len(out) + 1
        if o.get("op") == "ntt_big":
            pairs = convert_ntt_big(o)
            for k in range(0, len(pairs), 8):
                ln = len(out) + 1
                chunk = pairs[k:k + 8]
                out.append(json.dumps({"ev": "big", "facts": [f for f, _ in chunk]}))
                for i, (_, d) in enumerate(chunk):
                    index[(ln, i + 1)] = d
            continue
        if o["ev"] == "big" and o["facts"] and o["facts"][0].get("op") == "ntt_small":
            ln = len(out) + 1
            out.append(json.dumps(o))
            e = o["facts"][0]
            index[(ln, 1)] = {"op": "ntt_small", "n": e["n"], "q": e["q"], "root": e["root"]}
            continue
        if o["ev"] == "rns":
            ln = len(out) + 1
            facts = []
            for i, f in enumerate(o["facts"]):
                if f["op"] == "rns_dec_request":
                    continue
                facts.append(convert_rns(f))
                index[(ln, len(facts))] = {k: v for k, v in f.items() if k in ("op", "q", "variant", "t", "what")}
            if facts:
                out.append(json.dumps({"ev": "big", "facts": facts}))
            continue
        if o["ev"] == "batch_big":
            # 20..60-bit plain moduli: limb arrays, quotient hints for the slot-wise products
            t = int(o["t"])
            L = lambda v: [limbs(int(x)) for x in v]
            ln = len(out) + 1
            out.append(json.dumps({"ev": "batch_big", "n": o["n"], "t": limbs(t),
                                   "rt": [{"v": L(r["v"]), "poly": L(r["poly"]), "dec": L(r["dec"])} for r in o["rt"]],
                                   "pairs": [{"a": L(p["a"]), "b": L(p["b"]), "prod": L(p["prod"]), "sum": L(p["sum"]),
                                              "h": [limbs(int(x) * int(y) // t) for x, y in zip(p["a"], p["b"])]} for p in o["pairs"]],
                                   "rot": [{"s": r["s"], "inp": L(r["inp"]), "out": L(r["out"])} for r in o["rot"]]}))
            index[(ln, 1)] = {"op": "batch_big", "n": o["n"], "t": o["t"]}
            continue
        if o["ev"] == "batch":
            ln = len(out) + 1
            out.append(json.dumps(o))
            index[(ln, 1)] = {"op": "batch", "n": o["n"], "t": o["t"]}
            continue
        if o["ev"] == "small":
            out.append(json.dumps(o))
            for i, row in enumerate(o["rows"]):
                index[(ln, i + 1)] = {"op": "small", "m": o["m"], "row": row}
        elif o["ev"] == "big":
            facts = []
            for i, f in enumerate(o["facts"]):
                facts.append(convert_fact(f))
                index[(ln, i + 1)] = describe(f)
            out.append(json.dumps({"ev": "big", "facts": facts}))
        elif o["ev"] == "panic":
            out.append(json.dumps({"ev": "big", "facts": [flag(False, "panic")]}))
            index[(ln, 1)] = o
        else:
            raise ToolError("unknown raw event %s" % o["ev"])
    return out, index


def validate(tlc_lines, wd, name="trace", module="Trace_Arith", timeout=3000, chunks=None, overlap=0, cfg_text=None):
    """Runs TLC over the trace (split over `chunks` parallel TLC processes). Returns (bad list of (line, idx), stats)."""
    import threading
    nchunks = chunks or max(1, min(8, len(tlc_lines) // 200))
    size = (len(tlc_lines) + nchunks - 1) // nchunks
    results = [None] * nchunks
    errs = []
    # without overlap the lines are independent: balance the chunks by bytes (big events cluster, e.g. large degrees last)
    assign = None
    if overlap == 0 and nchunks > 1:
        assign = [[] for _ in range(nchunks)]
        load = [0] * nchunks
        for i in sorted(range(len(tlc_lines)), key=lambda i: -len(tlc_lines[i])):
            k = load.index(min(load))
            assign[k].append(i)
            load[k] += len(tlc_lines[i]) + 1
        for a in assign:
            a.sort()

    def work(k):
        if assign is not None:
            idx = assign[k]
            part = [tlc_lines[i] for i in idx]
            lo = None
        else:
            lo = max(0, k * size - overlap) if k > 0 else 0
            part = tlc_lines[lo:(k + 1) * size]
            idx = None
            if k * size >= len(tlc_lines):
                part = []
        if not part:
            results[k] = ([], dict(generated=0, distinct=0))
            return
        d = os.path.join(wd, "%s_%d" % (name, k))
        os.makedirs(d, exist_ok=True)
        tp = os.path.join(d, "trace.ndjson")
        open(tp, "w").write("\n".join(part) + "\n")
        if cfg_text is None:
            shutil.copy(os.path.join(SPEC, module + ".cfg"), d)
        else:
            open(os.path.join(d, module + ".cfg"), "w").write(cfg_text)
        bad = []

        def on_line(tag, obj):
            if tag == "BAD":
                for b in obj["bad"]:
                    bad.append((idx[b[0] - 1] + 1, b[1]) if idx is not None else (b[0] + lo, b[1]))
                if obj["lines"] != len(part):
                    errs.append(ToolError("TLC read %d lines, expected %d" % (obj["lines"], len(part))))
        try:
            r = run_tlc(module, os.path.join(d, module + ".cfg"), d, workers=1, timeout=timeout, env={"TRACE": tp}, on_line=on_line,
                        java_opts="-Xss1g -Dtlc2.tool.queue.IStateQueue=StateDeque", heap="3g")
            if r["violated"] not in (None, "AllHold"):
                errs.append(ToolError("trace spec: %s" % r["error"]))
            elif r["violated"] is None and not r["ok"]:
                log("\n".join(r["out"][-30:]))
                errs.append(ToolError("trace validation failed to run: %s" % r["error"]))
            elif r["distinct"] != len(part) + 1:
                errs.append(ToolError("trace not consumed completely: %d states for %d lines" % (r["distinct"], len(part))))
            results[k] = (bad, r)
        except Exception as ex:
            errs.append(ex)

    ths = [threading.Thread(target=work, args=(k,)) for k in range(nchunks)]
    for t in ths:
        t.start()
    for t in ths:
        t.join()
    if errs:
        raise errs[0]
    bad = []
    gen = dist = 0
    for b, r in results:
        bad += [x for x in b if x not in bad]
        gen += r["generated"]
        dist += r["distinct"]
    return sorted(bad), dict(generated=gen, distinct=dist)
