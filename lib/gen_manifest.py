#!/usr/bin/env python3
"""Regenerates /verif/MANIFEST.json from the table below (keeps it schema-valid at all times)."""
import json, os
ROOT = os.path.dirname(os.path.dirname(os.path.abspath(__file__)))
HE_NOTE = ("Trusted: TLC, the text of spec/HE.tla + spec/Plain.tla, the projection in harness/src/project.rs (uses the library's own "
           "Decryptor/encoders to observe values), serde_json, rustc. Exhaustive only up to the stated depth and constants; values are "
           "tracked for one representative per typestate class plus a random sample.")
CHECKS = {
 "C01": dict(cat="model_checking", tech="TLA+ spec HE.tla model-checked by TLC; every transition class replayed on the real Encryptor/Decryptor (spec->impl conformance)",
   text="TLC enumerates all encode/encrypt/encrypt_zero/expand/decrypt paths of HE.tla (3 schemes, 4 encryption modes, every level, 8 message patterns incl. 0, t-1, upper-half, short/full) "
        "for 13 (quick) / 21 (thorough) parameter sets with N=2..64, 2..7 primes of 20..60 bits in mixed order; each distinct (action, arguments, operand typestate) is executed on the library and "
        "the decrypted plaintext (BFV/BGV exact; CKKS within the model's worst-case bound), level, representation, seededness, scale bits and validity are compared.",
   ref="DESIGN.md 4/C01", note=HE_NOTE),
 "C02": dict(cat="model_checking", tech="TLA+ spec HE.tla model-checked by TLC; one replay per transition class of the state graph on the real Evaluator (spec->impl) + recorded seeded-random programs validated by TLC against spec/Trace_HE.tla (impl->spec)",
   text="All operation programs up to depth 6 (quick) / 8 (thorough) over a pool of 2-3 ciphertexts and a plaintext: negate/add/sub/multiply/square/relinearize/plain ops/NTT changes/mod switch, "
        "sizes up to 9, all levels, both representations, BGV correction-factor combinations; TLC computes the expected polynomial in Z_t[X]/(X^N+1) and the harness demands exact equality "
        "whenever the model's worst-case noise is below threshold. Plus 100 (quick) / 1600 (thorough) recorded programs of 80..150 calls chosen by a driver from the state of the real objects (incl. ill-typed calls, "
        "a second secret key, corruptions): every call is judged by the specification's verdict, its result projection, values, API-form agreement and a noise-budget floor.", ref="DESIGN.md 4/C02, 4.5", note=HE_NOTE),
 "C03": dict(cat="model_checking", tech="TLA+ spec HE.tla (CKKS instance) model-checked by TLC; replay of every transition class; scale compared bit-exactly against the IEEE evaluation of the model's scale expression; recorded programs validated against spec/Trace_HE.tla",
   text="All CKKS programs up to depth 6/7 over Gaussian-integer slot vectors (negative, imaginary, mixed magnitude), two fresh scales, mixed-size prime chains; decoded slots must be within 2^nb of "
        "the exact expected value (nb = worst-case bound carried by the model), scale bit-exact, and level/scale mismatches and oversize scales must be refused.", ref="DESIGN.md 4/C03", note=HE_NOTE),
 "C04": dict(cat="model_checking", tech="TLA+ spec HE.tla/Plain.tla (automorphism X->X^g, slot rotation, key switching from a second secret key) model-checked by TLC; replay on the real Evaluator with default (NAF-composed) and complete Galois key sets; recorded programs validated against spec/Trace_HE.tla",
   text="Every odd Galois element and every rotation step 0<|s|<N/2, column swap / conjugation, at every level, for BFV/BGV/CKKS at N=8 and N=16 (thorough also N=32), with the required key present "
        "directly or composed from the power-of-two keys; expected polynomial / slot vector computed by TLC. Key switching: ciphertexts encrypted under a second secret key (four modes), operated on under that key, "
        "switched with apply_keyswitching and used under the context's key, on 5 parameter sets.", ref="DESIGN.md 4/C04", note=HE_NOTE),
 "C05": dict(cat="model_checking", tech="TLA+ spec HE.tla (chain actions, LevelRule action property) + spec/Chain.tla (the to-target loop: termination under weak fairness, ends on target; the pinned-commit loop refuted) model-checked by TLC; replay of every transition class in all three API forms under a per-call deadline",
   text="All (source level, target level) pairs of chains with 1..4 (quick) / 1..6 (thorough) levels, sizes 2..3, three schemes, ciphertext and plaintext switching, to-next and to-target, "
        "in-place / destination / value-returning forms; result level, message, BGV correction factor, CKKS scale (bit-exact) compared; upward / past-the-end / non-CKKS rescale must be refused; "
        "a call that does not return within the deadline is reported as non-termination.", ref="DESIGN.md 4/C05", note=HE_NOTE),
 "C06": dict(cat="model_checking", tech="TLA+ spec HE.tla (full action set + single-field corruptions, verdict ok/refuse/unconstrained) model-checked by TLC; replay of every transition class, three API forms compared byte-for-byte; recorded programs validated against spec/Trace_HE.tla",
   text="Every action of the specification from every reachable operand typestate up to depth 3/4, including the 7 single-field corruptions, seeded operands, level and representation mismatches; "
        "results must pass is_valid_for and an independently written validity predicate; the in-place, destination and value-returning forms must agree bit-for-bit; must-refuse operands must panic.",
   ref="DESIGN.md 4/C06", note=HE_NOTE),
}
ARITH_NOTE = ("Trusted: TLC, spec/BigNat.tla + the definitions module, serde_json, rustc. Operands/results are recorded by the harness from the real functions; "
              "quotient hints are computed by bin/check in Python and are untrusted (a wrong hint can only cause rejection). Universal claims over all 61-bit moduli / "
              "128-bit operands are sampled (boundary + random), exhaustive only on the small domain stated.")
CHECKS.update({
 "C08": dict(cat="model_checking", tech="trace validation (impl->spec): every recorded call of a primitive is checked by TLC against its mathematical definition in spec/WordArith.tla over BigNat.tla",
   text="Every word-level modular primitive and multi-word helper is called on (i) all operand pairs of 12 (quick) / all 126 (thorough) moduli below 2^7, (ii) boundary and random operands for the "
        "smallest/largest/random/NTT-prime modulus of 13 (quick) / all 60 (thorough) bit lengths 2..61, (iii) 1..8-word integers with carry patterns, (iv) xgcd / are_coprime / naf; TLC evaluates the exact-integer definition "
        "(r = a*b mod m as a*b = k*m + r /\\ r < m etc.) on every event and lists every event that fails.", ref="DESIGN.md 4/C08", note=ARITH_NOTE),
 "C14": dict(cat="model_checking", tech="trace validation (impl->spec): recorded write-call sequences and sizes of every catalogue object checked by TLC against the wire grammar Layout(shape) of spec/Serialize.tla",
   text="For 3 (quick) / 9 (thorough) parameter sets with residue widths 1..8 bytes (plus 1 / 3 parameter sets of the RNS-plaintext wrapper with 23 wrapper objects each), ~64 objects each (all serializable types, seeded and expanded, sizes 2/3/7, both representations, all three "
        "ciphertext formats with 4 term subsets, containers incl. empty): TLC checks that the sequence of write widths equals the grammar, that announced = returned = written = consumed = Size(shape), "
        "and that same-context, independent-context, two-objects-in-one-stream round trips and follow-up use of the restored object are exact.", ref="DESIGN.md 4/C14",
   note="Trusted: TLC, spec/Serialize.tla, the shape projection and byte-wise equality in harness/src/ser.rs. Values of objects are random; only the enumerated shapes are covered."),
 "C15": dict(cat="fault_enumeration", tech="TLC enumerates writer fault scripts over spec/SerializeFaults.tla (and refutes the single-write deviation); each script and every truncation offset replayed on the real (de)serializers",
   text="All scripts (acceptance limits 1..8 for the first calls x failing call index) enumerated by TLC for 12 (quick) / all ~64 (thorough) catalogue objects together with the outcome of the write_all "
        "design; every script is executed against the real serializer with a scripted writer (Ok must mean the complete encoding reached the sink, otherwise Err, never a panic), and every truncation "
        "offset 0..len of every object's encoding is fed to the real deserializer (must be Err, never a panic or an object).", ref="DESIGN.md 4/C15",
   note="Trusted: TLC, spec/SerializeFaults.tla, the scripted writer / truncating reader in harness/src/ser.rs. Fault model = short writes and one failing call; readers that return short reads are not modelled."),
})
CHECKS.update({
 "C13": dict(cat="model_checking", tech="TLC enumerates the parameter universe of spec/Params.tla (Build action, design invariant PrefixClosed); every object is built through the real builder/HeContext::new and the recorded outcome validated by TLC against Pre, the chain rules and the constant definitions (trace validation)",
   text="Exhaustive small-parameter universe (quick ~23k, thorough ~10^6 objects: schemes x degrees incl. 0/3/non-power-of-two x moduli lists incl. composites, duplicates, non-NTT x plain moduli x security level x expansion x special-prime flag). "
        "TLC checks for every object: construction does not panic; parameters_set => documented preconditions on every level, chain = prefix moduli sets with indices decreasing to 0 and consistent prev/next links, "
        "per-level constants equal their definitions, ids reproducible (rebuild and via serialized parameters) and collision-free; otherwise a specific error. Generated moduli: distinct primes of exact size = 1 mod 2N; primality at 25..60 bits decided by TLC through Miller-Rabin certificates (spec/Primes.tla, 12 bases, every modular step verified on exact integers); is_prime judged in both directions on ~720 (~8000) values incl. Carmichael numbers and strong pseudoprimes; max_bit_count / bfv_default against the security table.",
   ref="DESIGN.md 4/C13", note="Trusted: TLC, spec/Params.tla, the projection in harness/src/c13.rs. Accepted contexts with 60-bit moduli do not fit native TLC integers and are outside this check (C01-C07 exercise them); SHA-256 collision freedom beyond the universe is assumed."),
 "C17": dict(cat="model_checking", tech="TLC model-checks spec/KeyCache.tla and spec/GaloisCache.tla (safety + liveness, deviation refuted; inductive invariants for any number of threads proved with TLAPS); every interleaving is replayed on real threads through a deterministic scheduler on the verif-hooks yield points; free runs validated against spec/Trace_Cache.tla",
   text="All interleavings of the lock phases of 2-3 threads (thorough: all requested-power combinations, 4 threads sampled) sharing one Decryptor / KeyGenerator / Galois tool: ~59k forced schedules (quick). After every step the yield site and the cache "
        "state reported under the lock must equal the model's, no thread may block, and every thread's result must equal the sequential one. Plus 150/3000 OS-scheduled runs whose lock-ordered events TLC validates (monotone cache, use sees enough).",
   ref="DESIGN.md 4/C17", note="Trusted: TLC, the two cache specs, harness/src/sched.rs. Lock phases are modelled as atomic (hooks yield only where no lock is held); races inside unsafe blocks and Arc::as_ptr().cast_mut() during context construction are below this granularity."),
})
CHECKS.update({
 "C09": dict(cat="model_checking", tech="trace validation (impl->spec): recorded roots and transform outputs of the real NTT tables checked by TLC against the evaluation-map definition in spec/Ntt.tla (native integers for q < 2^14, BigNat power-chain certificates up to 61 bits)",
   text="For every NTT-friendly prime below 2^14 (4/12 per degree 2..32/64): minimal root, all N unit vectors + dense + extreme vectors forward and inverse against NTT(a)[i] = a(psi^(2 brev(i)+1)), "
        "lazy forms on their range maxima and multiples of q (outputs < 4q resp. < 2q, congruent), convolution through dyadic products, negacyclic shifts, and agreement of independently constructed tables; "
        "for 20..61-bit moduli and N up to 256 (quick) / 4096 (thorough) the images of c*X^j are checked through certified power chains.", ref="DESIGN.md 4/C09", note=ARITH_NOTE),
 "C16": dict(cat="model_checking", tech="TLC explores spec/BlakeRng.tla (stream position under fill_bytes/next_u32/next_u64 with alignment); every (position, call) transition replayed on the real BlakeRNG against an independent BLAKE3-XOF reference; histories/samples validated by TLC (spec/Trace_Rng.tla)",
   text="All (position <= 8300 quick / 12400 thorough, call) pairs incl. reads straddling one to three buffer refills, for 8 seeds, byte-exact against the documented stream; histories of 60/400 mixed encryptions and key generations: "
        "all masks and stored seeds pairwise distinct, equal explicit generator states give equal masks and leave the generator in the same state; 32-byte windows of 64 KiB / 1 MiB distinct; ternary/error/uniform samples for 1..6 primes well-formed; "
        "every component of generated public / relinearization / Galois / key-switching keys is an RLWE sample c0 + c1*s = payload + e with |e| <= 21 in every key-level prime (spec/Keys.tla, BigNat).",
   ref="DESIGN.md 4/C16", note="Trusted: TLC, spec/BlakeRng.tla, the blake3 crate used for the reference stream, 96-bit digests for comparing masks. Distribution checks are sanity bounds only."),
})
CHECKS.update({
 "C11": dict(cat="model_checking", tech="trace validation (impl->spec): recorded BatchEncoder / apply_galois_plain behaviour checked by TLC against spec/Batch.tla (slots = evaluations at psi^(3^i), psi^(-3^i))",
   text="For 14 (quick) / 27 (thorough) batching-compatible (N, t) with N = 2..64, t < 2^15: all N unit vectors, extreme, empty, short and random vectors encoded and decoded, arbitrary short polynomials decoded, "
        "sums and negacyclic products of encoder outputs act slot-wise, the automorphism the library associates with every step -(N/2-1)..N/2-1 rotates both rows left by the step, the column swap exchanges the rows, "
        "coefficient encoding reduces modulo t. For 6 (quick) / 15 (thorough) plain moduli of 20..60 bits (N up to 64 / 1024): encode/decode inverse, decode a ring homomorphism on sums and negacyclic products formed "
        "by the harness in 128-bit arithmetic, rotations / column swap permute the slots (BigNat).", ref="DESIGN.md 4/C11", note="Trusted: TLC, spec/Batch.tla. For plain moduli above 2^15 the slot order is fixed only through the rotation semantics (psi is not recomputed)."),
 "C18": dict(cat="model_checking", tech="TLC enumerates delivery orders and (premature) finish attempts over spec/Multiparty.tla (Agreement, NoEarlyFinish); every order replayed with real Participants for each protocol",
   text="All delivery orders of one broadcast round for 2 and 3 parties (all-to-all and star topology), sampled for 4-6 parties, with at most one premature finish, replayed for public-key generation, secret-key revelation, "
        "two-round relinearization keys, collective decryption, key switch, public-key switch, cipher->shares and shares->cipher over BFV, BGV and CKKS: premature finish refused, outputs byte-identical across parties, "
        "collective keys usable under the sum of the secret keys and the collective public key an exact RLWE sample under that sum (spec/Keys.tla), plaintext preserved.", ref="DESIGN.md 4/C18",
   note="Trusted: TLC, spec/Multiparty.tla (abstract additive shares), harness/src/c18.rs. Only the round structure is modelled; ring identities are observed through ordinary encryption/decryption under the summed key."),
})
CHECKS.update({
 "C19": dict(cat="model_checking", tech="TLC checks in spec/Lwe.tla that the butterfly packing / trace algorithm refines the abstract placement specification for every pack count; recorded results of the real extract/trace/pack validated by TLC against the abstract specification",
   text="Design: PackAlgo = PackSpec and TraceAlgo = TraceSpec for all k <= N, N = 4, 8, 16 (thorough 2..32). Binding: for BFV/BGV/CKKS at N = 4..16 (..32): extract+assemble of every index from both representations, "
        "field trace for every parameter, packing of every count 1..N on random small messages; decrypted polynomials must equal the specification (CKKS after rounding, deviation < 0.1).",
   ref="DESIGN.md 4/C19", note="Trusted: TLC, spec/Lwe.tla, the decrypt/decode projection of harness/src/c19.rs. N up to 32 only."),
 "C20": dict(cat="model_checking", tech="trace validation (impl->spec): results of the real matmul / conv2d helpers on enumerated small shapes checked by TLC against the functional specification spec/MatMul.tla; spec/Cheetah.tla, spec/Conv2d.tla and spec/Bolt.tla (refinements: block search, tiles, index maps, block-wise negacyclic products; slot layouts, rotation / mask / rotate-and-sum programs, read-out, blocking) model-checked on all pairs of unit operands and bound to the helpers' block choice, encoded polynomials / slot vectors, term lists and output positions",
   text="Cheetah coefficient-packing matmul on every shape (m,r,n) in 1..4 (1..6) x three objectives x cipher*plain / plain*cipher x packing on/off with selected-terms transport, bias and encode/decrypt round trip, plus multi-ciphertext / partial-block shapes; "
        "the three BOLT slot-packing variants (results at N = 8, 16, 32; layouts of every shape up to 5x5x5 (7x7x7) and of shapes beyond N/2 and N against spec/Bolt.tla); conv2d over image 2..7 (2..9) x kernel up to 2x3 x channel/batch combinations incl. height and width tiling, sparse (all-zero) layers; every result must equal Y = XW + B mod t resp. the valid cross-correlation. "
        "The RNS-plaintext wrapper (2-3 plain moduli) must compute modulo the product of its moduli; the CKKS variants of cheetah matmul and conv2d must be within 2^-5 of the integer result.",
   ref="DESIGN.md 4/C20", note="Trusted: TLC, spec/MatMul.tla. CKKS variants only for cheetah matmul and conv2d (cipher*plain); the Cheetah, conv2d and BOLT packings have refinement models (BOLT rotation programs model-checked at N = 8, 16, thorough also 32)."),
})
CHECKS.update({
 "C10": dict(cat="model_checking", tech="trace validation (impl->spec): per-coefficient results of the real RNS routines, on inputs built from known integers, checked by TLC against the integer post-conditions of spec/Rns.tla over BigNat",
   text="CRT compose/decompose exhaustively for four tiny bases (single and array form) and on boundary/random integers for bases of 1..4 (quick) / 1..8 (thorough) primes of 18..60 bits in mixed order; "
        "m~ base conversion (value + a*Q with one a < k), Montgomery reduction, fast floor (floor(x/Q) - a), Shenoy-Kumaresan conversion of signed values, divide-and-round by the last prime in coefficient and NTT form, "
        "the BGV mod-t variant in both forms, scale-and-round and mod-t decryption with noise up to Q/4: ~1200 (quick) events, each an exact BigNat identity with untrusted quotient hints.",
   ref="DESIGN.md 4/C10", note=ARITH_NOTE + " The plain BaseConverter is not public; it is observed through the routines built on it."),
})
CHECKS.update({
 "C12": dict(cat="model_checking", tech="trace validation (impl->spec): residues of every coefficient of every produced plaintext checked by TLC (BigNat) against spec/Ckks.tla: one small integer per coefficient, equal to the rounded scaled input where the preimage is known exactly",
   text="~3000 (quick) encodings: five entry points x scales 2^0..2^(log q+3) incl. 0/negative, crossing the 64- and 128-bit paths x magnitudes 0..1e18 of both signs x chains of 3..5 (thorough ..19) primes at every level, incl. reused destinations. "
        "TLC verifies component consistency (CRT hint checked residue by residue), x_j = round(v_j*scale) within 2^-51 relative for integer / single / coefficient-list inputs, within 2^-40 for monomial-preimage vectors (N=2 exact), zeros elsewhere, "
        "decode deviation, recorded scale and level, and refusal of oversized magnitudes and invalid scales.", ref="DESIGN.md 4/C12",
   note=ARITH_NOTE + " The double-precision FFT is not modelled; general vectors are covered by consistency and decode(encode(v)) = v only."),
})
CHECKS.update({
 "C07": dict(cat="model_checking", tech="trace validation (impl->spec): every budget event (phase residues computed by the harness without the Decryptor) is judged by TLC against spec/Budget.tla on exact integers (BigNat): CRT certificate, centred noise, bit length, budget equality and the fresh / negate / k-ary / threshold rules",
   text="~450 (quick) / ~2500 (thorough) ciphertexts produced by small programs: fresh pk / sk / seeded encryptions (random plaintexts and, for plain moduli of 41 and 51 bits, coefficients chosen so that the plaintext scaling carries into its high word), "
        "encryptions of zero at every level, negation, add_many and subtraction chains of 2..5 (2..8) operands, mixed sizes, multiplication chains with relinearization and modulus switching down to zero budget; BFV and BGV, N = 4..16, 1..7 primes of 20..60 bits. "
        "TLC recomputes the noise integer of every coefficient from the certified phase, its maximum bit length and the budget, demands equality with the reported value, the fresh lower bound 2t(21(2N+1)+2), budget preservation under negation, "
        "the ceil(log2 k)+1 rule and exact decryption whenever the true noise t*x - Q*m is below Q/2.", ref="DESIGN.md 4/C07",
   note=ARITH_NOTE + " The secret key is brought to coefficient form with the library's inverse NTT (decided by C09); the BGV threshold clause is not evaluated (the BGV noise integer depends on the correction factor bookkeeping decided by C02/C05)."),
})
NA_REASON = "check not built yet in this round (work in progress; see DESIGN.md section 8)"
EXTRA = os.path.join(ROOT, "lib", "manifest_extra.json")


def main():
    props = [json.loads(l) for l in open(os.path.join(ROOT, "properties.jsonl"))]
    checks = dict(CHECKS)
    if os.path.exists(EXTRA):
        checks.update(json.load(open(EXTRA)))
    hooks_commit = "fdd83f1"
    m = {
        "version": 1,
        "setup_cmd": "bin/check --setup",
        "hooks": {
            "guard": "cargo feature verif-hooks",
            "enable": "the harness (/verif/harness) depends on heathcliff = { path = \"/repo\", features = [\"verif-hooks\"] }; every check runs `cargo build --release --offline` there, which rebuilds /repo from its working tree with the hooks on",
            "baseline_off_cmd": "cd /repo && cargo test --workspace --no-fail-fast --offline",
            "source_commits": [hooks_commit],
            "add_only": True,
        },
        "engines": [{"name": "tlc+hcv", "path": "bin/check", "serves_properties": sorted(checks.keys()),
                     "kind_free_text": "TLA+ specifications in spec/ checked with TLC; behaviours replayed into / traces recorded from the Rust harness harness/ (binary hcv)"}],
        "checks": [],
        "notes": "Exit codes of bin/check: 0 held, 1 violation (VIOLATION line + replay file), 2 tool error / tool timeout. Known findings are listed in known_findings.json.",
        "not_applicable": [],
    }
    for p in props:
        pid = p["id"]
        if pid in checks:
            c = checks[pid]
            m["checks"].append({
                "property_id": pid,
                "quick_cmd": "bin/check %s quick" % pid,
                "thorough_cmd": "bin/check %s thorough" % pid,
                "evidence_file": "evidence/%s.json" % pid,
                "replay_cmd_template": "bin/check %s --replay {path}" % pid,
                "engine": "tlc+hcv",
                "level_claimed": {"category": c["cat"], "text": c["text"], "design_ref": c["ref"]},
                "level_note": c["note"],
                "technique": c["tech"],
            })
        else:
            m["not_applicable"].append({"property_id": pid, "reason": NA_REASON})
    json.dump(m, open(os.path.join(ROOT, "MANIFEST.json"), "w"), indent=1)
    print("MANIFEST: %d checks, %d not_applicable" % (len(m["checks"]), len(m["not_applicable"])))


if __name__ == "__main__":
    main()
