#!/usr/bin/env python3
"""seedtest.py <seeded-id> <check-id>[,<check-id>...] [tier]: apply the seeded change to /repo, run the checks, undo, record the outcome in meta.json"""
import json, os, subprocess, sys, time
sid = sys.argv[1]
checks = sys.argv[2].split(",")
tier = sys.argv[3] if len(sys.argv) > 3 else "quick"
d = os.path.join("/verif/seeded", sid)
st = subprocess.run(["git", "-C", "/repo", "status", "--porcelain"], capture_output=True, text=True).stdout.strip()
assert st == "", "/repo not clean: " + st
r = subprocess.run(["git", "-C", "/repo", "apply", os.path.join(d, "patch.diff")], capture_output=True, text=True)
assert r.returncode == 0, r.stderr
meta = json.load(open(os.path.join(d, "meta.json")))
try:
    for c in checks:
        t0 = time.time()
        r = subprocess.run(["/verif/bin/check", c, tier], cwd="/verif", capture_output=True, text=True)
        viol = [l for l in r.stdout.splitlines() if l.startswith("VIOLATION")]
        meta.setdefault("caught_by", {})["%s/%s" % (c, tier)] = {"exit": r.returncode, "violation_lines": len(viol), "wall_s": round(time.time() - t0, 1),
                                                                  "first": (r.stderr.splitlines()[-1] if viol and r.stderr.splitlines() else "")[:300]}
        print(sid, c, tier, "exit", r.returncode, "violations", len(viol), "%.0fs" % (time.time() - t0))
        if r.returncode == 2:
            print(r.stderr[-1500:])
finally:
    subprocess.run(["git", "-C", "/repo", "checkout", "--", "."])
json.dump(meta, open(os.path.join(d, "meta.json"), "w"), indent=1)
