"""Checks beyond the HE.tla family."""
import json, os, random, re, time
from common import *
import arith


def run_arith_trace(rep, raw_lines, wd, module="Trace_Arith", what="event", timeout=3000):
    lines, index = arith.convert_lines(raw_lines)
    bad, st = arith.validate(lines, wd, module=module, timeout=timeout)
    nfacts = len(index)
    rep.cov["states"] = rep.cov.get("states", 0) + st["distinct"]
    rep.cov["transitions"] = rep.cov.get("transitions", 0) + st["generated"]
    rep.cov["traces_validated_against_impl"] = rep.cov.get("traces_validated_against_impl", 0) + len(lines)
    rep.cov["evaluations"] = rep.cov.get("evaluations", 0) + nfacts
    for b in bad:
        f = index.get(tuple(b), {"op": "?"})
        sig = {"op": f.get("op"), "variant": f.get("variant")}
        if f.get("op") == "small":
            sig["m"] = f.get("m")
        rep.violation(sig, {"fact": f, "line": b[0], "index": b[1]})
    return nfacts, index


def check_c08(rep):
    wd = workdir("C08")
    raw = hcv(["c08", rep.tier, str(rep.seed)], timeout=1200).splitlines()
    nfacts, index = run_arith_trace(rep, raw, wd)
    ops = {}
    for k, f in index.items():
        key = f.get("op") + ("/" + f["variant"] if f.get("variant") else "")
        ops[key] = ops.get(key, 0) + 1
    distinct = len({json.dumps(f, sort_keys=True) for f in index.values()})
    rep.cov["distinct_nontrivial"] = distinct
    rep.cov["per_primitive"] = ops
    rep.cov["exhaustive"] = False
    rep.cov["rule"] = ("events = calls of the real primitives recorded by the harness: (i) every operand pair for every modulus in the small set "
                       "(quick: 12 moduli, thorough: all 2..127) as native-integer rows; (ii) boundary and random operands for the smallest/largest/"
                       "random/NTT-prime modulus of each bit length 2..61 (quick: 13 bit lengths); (iii) multi-word helpers for 1..8 words with "
                       "carry patterns; TLC evaluates the mathematical definition of WordArith.tla on every event (quotients are untrusted hints); "
                       "distinct = distinct (primitive, operands, result) tuples")
    ks = sorted(index.keys())
    for k in (ks[0], ks[len(ks) // 2], ks[-1]):
        rep.samples.append(index[k])
    rep.assumptions += ["WordArith.tla/BigNat.tla are the definitions; hints computed by bin/check (python integers) are untrusted: a wrong hint can only cause rejection",
                        "a panic inside a primitive on operands within its documented domain is reported as a violation"]


REGISTRY = {
    "C08": (check_c08, "model_checking"),
}


# --------------------------------------------------------------------------------------------------
# C14 / C15 serialization
# --------------------------------------------------------------------------------------------------
def tla_lit(v):
    if isinstance(v, bool):
        return "TRUE" if v else "FALSE"
    if isinstance(v, int):
        return str(v)
    if isinstance(v, str):
        return '"%s"' % v
    if isinstance(v, list):
        return "<<" + ", ".join(tla_lit(x) for x in v) + ">>"
    if isinstance(v, dict):
        return "[" + ", ".join("%s |-> %s" % (k, tla_lit(x)) for k, x in v.items()) + "]"
    raise ValueError(v)


SER_PSETS_QUICK = ["bfv_8_17_20,60,30", "bgv_8_17_33,41,50", "ckks_8_0_25,50,40", "rnsp_8_17,97_33,41,50"]
SER_PSETS_THOROUGH = SER_PSETS_QUICK + ["bfv_16_97_8,16,24,32,40,48,56,60", "bgv_4_17_60,60,60", "ckks_16_0_60,20,30,60", "bfv_8_17_50,50,50,50",
                                        "bgv_8_17_17,23,31,60", "ckks_4_0_30,30,30", "rnsp_16_97,193,257_20,60,30,40", "rnsp_8_17_60,60"]


def check_c14(rep):
    psets = SER_PSETS_QUICK if rep.tier == "quick" else SER_PSETS_THOROUGH
    wd = workdir("C14")
    raw = []
    for ps in psets:
        raw += hcv(["ser-layout", ps, str(rep.seed)], timeout=600).splitlines()
    events = [json.loads(l) for l in raw]
    bad, st = arith.validate(raw, wd, module="Trace_Serialize", chunks=min(4, len(psets)))
    rep.cov["states"] = st["distinct"]
    rep.cov["transitions"] = st["generated"]
    rep.cov["traces_validated_against_impl"] = len(events)
    rep.cov["evaluations"] = len(events)
    rep.cov["distinct_nontrivial"] = len({json.dumps(e["shape"], sort_keys=True) + e["name"].split("_")[0] for e in events})
    rep.cov["rule"] = ("events = one per object of the catalogue (parameters, plaintexts, secret/public/relinearization/Galois/key-switching keys seeded and expanded, "
                       "ciphertexts fresh/seeded/size 3 and 7/switched/either representation in compact, full and selected-terms formats with 4 term subsets, "
                       "1-3 dimensional ciphertext and plaintext containers incl. empty ones, single polynomials; for the RNS-plaintext wrapper (rnsp_*: ciphertexts in its three formats, "
                       "vectors, public / relinearization / Galois keys, each the concatenation of its per-plain-modulus components)) per parameter set; TLC checks the recorded "
                       "sequence of write widths against Layout(shape) of Serialize.tla, the four sizes, and the round-trip / cross-context / two-in-one-stream / "
                       "interchangeability observations; distinct = distinct (object kind, shape)")
    rep.cov["objects_per_pset"] = {ps: sum(1 for e in events if e["pset"] == ps) for ps in psets}
    for b in bad:
        e = events[b[0] - 1]
        sig = {"object": e["name"].split(":")[-1], "scheme": e["pset"].split("_")[0]}
        rep.violation(sig, {"event": e})
    rep.samples += [{k: events[i][k] for k in ("pset", "name", "shape", "rle", "announced")} for i in (0, len(events) // 2, len(events) - 1)]
    rep.assumptions += ["the shape of an object is read off its metadata by harness/src/ser.rs (size, level -> residue byte widths, seededness)",
                        "object equality is field-wise byte equality; a seed-compressed original is compared in its expanded form"]


FAULT_OBJECTS_QUICK = ["parms", "plain0", "ct_fresh_compact", "ct_seeded_compact", "ct_prod3_full", "ct_fresh_terms3", "pk_seeded",
                       "relin_seeded", "cipher2d", "cipher1d_0", "plain2d", "polynomial"]


def check_c15(rep):
    quick = rep.tier == "quick"
    psets = ["bgv_8_17_8,60,16"] if quick else ["bgv_8_17_20,60,30", "ckks_8_0_30,60,30"]
    rep.cov["rule"] = ("fault scripts = (object, per-call acceptance limits for the first calls, index of the failing write call) enumerated by TLC over "
                       "SerializeFaults.tla, which also computes the outcome of the write_all design (result, bytes on the sink); plus every truncation offset "
                       "0..len of every object's encoding; each script is executed against the real serializer / deserializer; distinct = distinct scripts")
    total_scripts = 0
    for ps in psets:
        wd = workdir("C15_" + ps.split("_")[0])
        events = [json.loads(l) for l in hcv(["ser-layout", ps, str(rep.seed)], timeout=600).splitlines()]
        objs = [e for e in events if (not quick) or e["name"] in FAULT_OBJECTS_QUICK]
        mc = ["---- MODULE MC_Faults ----", "EXTENDS SerializeFaults, Json"]
        mc.append("Shapes == " + tla_lit([e["shape"] for e in objs]))
        mc.append("Names == " + tla_lit([e["name"] for e in objs]))
        if quick:
            caps = [[], [1], [2], [3], [5], [7], [8], [1, 1], [3, 2]]
        else:
            caps = [[]] + [[c] for c in range(1, 9)] + [[a, b] for a in (1, 2, 3, 5, 8) for b in (1, 3, 7)] + [[1, 1, 1], [2, 1, 4], [7, 7, 7, 7]]
        mc.append("CapSets == {" + ", ".join(tla_lit(c) for c in caps) + "}")
        mc.append("FailSet(nf) == {0} \\cup {k \\in 1..(nf + 8) : k <= %d \\/ k %% %d = 0 \\/ k >= nf - 2}" % ((10, 17) if quick else (14, 5)))
        mc.append("VARIABLE oi")
        mc.append("MCInit == \\E i \\in 1..Len(Shapes), c \\in CapSets : \\E f \\in FailSet(Len(Layout(Shapes[i]))) :")
        mc.append("   /\\ oi = i /\\ fields = Layout(Shapes[i]) /\\ caps = c /\\ failAt = f")
        mc.append("   /\\ fi = 1 /\\ left = Layout(Shapes[i])[1] /\\ calls = 0 /\\ sink = 0 /\\ claimed = 0 /\\ result = \"run\"")
        mc.append("MCNext == WNext /\\ UNCHANGED oi")
        mc.append("Emit == result # \"run\" => PrintT(<<\"F\", ToJson([name |-> Names[oi], caps |-> caps, fail_at |-> failAt, "
                  "expect |-> [result |-> result, sink |-> sink, calls |-> calls]])>>)")
        mc.append("EmitTrunc == \\A i \\in 1..Len(Shapes) : PrintT(<<\"K\", ToJson([name |-> Names[i], size |-> Size(Shapes[i])])>>)")
        mc.append("====")
        open(os.path.join(wd, "MC_Faults.tla"), "w").write("\n".join(mc) + "\n")
        # the same machine over two objects only, for refuting the single-write deviation (a sanity run that need not scale)
        small = [l for l in mc]
        small[0] = "---- MODULE MC_FaultsSmall ----"
        small[2] = "Shapes == " + tla_lit([e["shape"] for e in objs[:2]])
        small[3] = "Names == " + tla_lit([e["name"] for e in objs[:2]])
        open(os.path.join(wd, "MC_FaultsSmall.tla"), "w").write("\n".join(small) + "\n")
        cfg = os.path.join(wd, "MC_Faults.cfg")
        open(cfg, "w").write("INIT MCInit\nNEXT MCNext\nCONSTANT WAll = TRUE\nINVARIANTS OkMeansComplete ClaimTruthful Emit\nCHECK_DEADLOCK FALSE\n")
        scripts = []
        seen = set()

        def on_line(tag, obj):
            if tag == "F":
                k = json.dumps([obj["name"], obj["caps"], obj["fail_at"]])
                if k not in seen:
                    seen.add(k)
                    scripts.append(obj)
        r = run_tlc("MC_Faults", cfg, wd, workers=8, on_line=on_line, timeout=1500)
        if r["violated"]:
            raise ToolError("the write_all design violates %s in the model" % r["violated"])
        tlc_must_pass(r, "MC_Faults")
        # the defect model (one write per field, count ignored) must be refuted by TLC: the specification can express the failure
        cfg2 = os.path.join(wd, "MC_Faults_defect.cfg")
        open(cfg2, "w").write("INIT MCInit\nNEXT MCNext\nCONSTANT WAll = FALSE\nINVARIANTS OkMeansComplete\nCHECK_DEADLOCK FALSE\n")
        r2 = run_tlc("MC_FaultsSmall", cfg2, wd, workers=4, timeout=600)
        rep.cov["defect_model_refuted_by_tlc"] = r2["violated"] == "OkMeansComplete"
        if r2["violated"] != "OkMeansComplete":
            raise ToolError("sanity: the single-write deviation should violate OkMeansComplete in the model")
        # truncation offsets: every offset of every object
        sizes = {e["name"]: e["announced"] for e in objs}
        for e in objs:
            for k in range(0, e["announced"] + 1):
                scripts.append({"name": e["name"], "truncate": k})
        sp = os.path.join(wd, "scripts.ndjson")
        open(sp, "w").write("\n".join(json.dumps(s) for s in scripts) + "\n")
        out = hcv(["ser-faults", ps, str(rep.seed), sp], timeout=1500).splitlines()
        if len(out) != len(scripts):
            raise ToolError("fault replayer returned %d results for %d scripts" % (len(out), len(scripts)))
        nv = 0
        for sc, line in zip(scripts, out):
            o = json.loads(line)
            if o["status"] != "ok":
                nv += 1
                sig = {"object": o["name"].split("_")[0], "direction": "read" if "truncate" in sc else "write",
                       "kind": "panic" if "panick" in o["detail"] else "wrong"}
                rep.violation(sig, {"pset": ps, "script": sc, "observed": o})
        total_scripts += len(scripts)
        rep.cov["states"] = rep.cov.get("states", 0) + r["distinct"]
        rep.cov["transitions"] = rep.cov.get("transitions", 0) + r["generated"]
        rep.cov.setdefault("runs", []).append({"pset": ps, "objects": len(objs), "scripts": len(scripts), "tlc_states": r["distinct"], "mismatches": nv})
        rep.samples += [scripts[0], scripts[len(scripts) // 3], scripts[-1]]
        log("[C15] %s: %d objects, %d scripts, %d mismatches" % (ps, len(objs), len(scripts), nv))
    rep.cov["evaluations"] = total_scripts
    rep.cov["distinct_nontrivial"] = total_scripts
    rep.cov["traces_validated_against_impl"] = total_scripts
    rep.assumptions += ["writers obey the std::io::Write contract: each call accepts 1..len bytes or fails; acceptance limits apply to the first calls only",
                        "a panic in serialize/deserialize is a violation; Ok with an incomplete sink is a violation"]


REGISTRY.update({
    "C14": (check_c14, "model_checking"),
    "C15": (check_c15, "fault_enumeration"),
})


# --------------------------------------------------------------------------------------------------
# C17 concurrency
# --------------------------------------------------------------------------------------------------
def tlc_behaviours(module, mcname, wd, consts_defs, cfg_lines, tag="B", workers=4, timeout=900, simulate=None, depth=None, seed=None):
    """Runs TLC on a generated MC module that prints one <<"B", json>> line per complete behaviour
    (exhaustively, or `simulate` random behaviours of at most `depth` steps)."""
    open(os.path.join(wd, mcname + ".tla"), "w").write("---- MODULE %s ----\nEXTENDS %s, Json\n%s\n====\n" % (mcname, module, consts_defs))
    cfg = os.path.join(wd, mcname + ".cfg")
    open(cfg, "w").write("\n".join(cfg_lines) + "\n")
    out = []
    r = run_tlc(mcname, cfg, wd, workers=workers if not simulate else 1, timeout=timeout, on_line=lambda t, o: out.append(o) if t == tag else None, simulate=simulate, depth=depth, seed=seed)
    return r, out


def tlaps_proofs(rep, wd):
    """Unbounded safety of the two cache designs: the inductive-invariant proofs spec/KeyCacheProof.tla and spec/GaloisCacheProof.tla
    are re-checked by the TLA+ proof system (any number of threads, any requests) - the bounded TLC runs are the source of the schedules."""
    import shutil, subprocess
    if shutil.which("tlapm") is None:
        rep.cov["tlaps"] = "tlapm not available: proofs not re-checked in this run"
        return
    d = os.path.join(wd, "tlaps")
    os.makedirs(d, exist_ok=True)
    res = {}
    for mod, dep in (("KeyCacheProof", "KeyCache"), ("GaloisCacheProof", "GaloisCache")):
        for f in (mod, dep):
            shutil.copy(os.path.join(SPEC, f + ".tla"), d)
        try:
            r = subprocess.run(["timeout", "600", "tlapm", "--threads", "4", mod + ".tla"], cwd=d, stdout=subprocess.PIPE, stderr=subprocess.STDOUT, text=True)
        except Exception as ex:
            raise ToolError("tlapm could not be run: %s" % ex)
        m = re.search(r"All (\d+) obligations proved", r.stdout)
        if not m:
            log(r.stdout[-2000:])
            raise ToolError("the proof %s.tla is not accepted by tlapm" % mod)
        res[mod] = int(m.group(1))
    rep.cov["tlaps_obligations_proved"] = res


def check_c17(rep):
    quick = rep.tier == "quick"
    wd = workdir("C17")
    pset = "bgv_8_17_40,40"
    tlaps_proofs(rep, wd)
    behs = []
    stats = rep.cov.setdefault("runs", [])
    # ---- key-power cache: all interleavings for every combination of requested powers
    combos = []
    if quick:
        combos = [("dec", n) for n in ([1, 2], [2, 1], [2, 2], [3, 2], [2, 3], [3, 3], [1, 3], [2, 3, 2], [3, 2, 1])] + [("kg", [2, 2]), ("kg", [2, 2, 2])]
    else:
        import itertools
        combos = [("dec", list(c)) for k in (2, 3) for c in itertools.product([1, 2, 3], repeat=k)] + [("kg", [2, 2]), ("kg", [2, 2, 2])]
        combos += [("dec", [3, 2, 3, 2])]
    for kind, need in combos:
        name = "MC_KC_%s_%s" % (kind, "".join(map(str, need)))
        defs = "MC_Need == %s\nMC_Threads == 1..%d\nEmit == AllDone => PrintT(<<\"B\", ToJson([need |-> MC_Need, steps |-> hist])>>)" % (tla_lit(need), len(need))
        cfgl = ["SPECIFICATION Spec", "CONSTANTS", "  Threads <- MC_Threads", "  Need <- MC_Need", "  InitLen = 1", "  Recheck = TRUE",
                "INVARIANTS UseSeesEnough Progress Emit", "PROPERTIES Monotone Terminates", "CHECK_DEADLOCK FALSE"]
        if len(need) >= 4:
            # four threads: the interleavings are sampled (TLC simulation mode; safety only), not enumerated
            cfgl = [l for l in cfgl if not l.startswith("PROPERTIES")]
            r, out = tlc_behaviours("KeyCache", name, wd, defs, cfgl, simulate=3000, depth=200, seed=rep.seed, timeout=1200)
            seen_b, uniq = set(), []
            for o in out:
                k = json.dumps(o["steps"])
                if k not in seen_b:
                    seen_b.add(k)
                    uniq.append(o)
            out = uniq
        else:
            r, out = tlc_behaviours("KeyCache", name, wd, defs, cfgl)
        if r["violated"]:
            raise ToolError("KeyCache.tla violates %s for %s" % (r["violated"], need))
        if len(need) < 4:
            tlc_must_pass(r, name)
        elif r["error"] and "violated" in r["error"]:
            raise ToolError("KeyCache.tla (simulation): %s" % r["error"])
        if not quick and len(out) > 4000:
            random.Random(rep.seed).shuffle(out)
            out = out[:4000]
        for o in out:
            behs.append({"model": "keycache", "kind": kind, "need": o["need"], "steps": o["steps"]})
        stats.append({"model": "KeyCache", "kind": kind, "need": need, "states": r["distinct"], "interleavings": len(out)})
        rep.cov["states"] = rep.cov.get("states", 0) + r["distinct"]
        rep.cov["transitions"] = rep.cov.get("transitions", 0) + r["generated"]
    # the deviation "install without re-check" must be refuted by TLC
    defs = "MC_Need == <<3, 2>>\nMC_Threads == 1..2"
    r, _ = tlc_behaviours("KeyCache", "MC_KC_norecheck", wd, defs, ["SPECIFICATION Spec", "CONSTANTS", "  Threads <- MC_Threads", "  Need <- MC_Need", "  InitLen = 1", "  Recheck = FALSE",
                                                                    "INVARIANTS UseSeesEnough", "PROPERTIES Monotone", "CHECK_DEADLOCK FALSE"])
    rep.cov["norecheck_deviation_refuted_by_tlc"] = r["violated"] is not None
    if r["violated"] is None:
        raise ToolError("sanity: KeyCache without re-check should violate Monotone/UseSeesEnough")
    # ---- Galois table cache: key generation for element lists; each element makes k = 2 apply calls (2 key-level primes)
    gcombos = [[[3], [3]], [[3], [9]], [[3, 15], [15]], [[3], [3], [3]]] if quick else [[[3], [3]], [[3], [9]], [[3, 15], [15]], [[3], [3], [3]], [[3, 9], [9, 3]], [[3], [9], [3]]]
    for elts in gcombos:
        calls = [[(g - 1) // 2 for g in th for _ in range(2)] for th in elts]
        name = "MC_GC_" + "_".join("".join(map(str, th)) for th in elts)
        slots = sorted({c for th in calls for c in th})
        defs = ("MC_Calls == %s\nMC_Threads == 1..%d\nMC_Slots == %s\nEmit == AllDone => PrintT(<<\"B\", ToJson([steps |-> hist])>>)" %
                (tla_lit(calls), len(calls), "{" + ", ".join(map(str, slots)) + "}"))
        cfgl = ["SPECIFICATION Spec", "CONSTANTS", "  Threads <- MC_Threads", "  Calls <- MC_Calls", "  Slots <- MC_Slots",
                "INVARIANTS UseSeesTable Progress Emit", "PROPERTIES NeverCleared Terminates", "CHECK_DEADLOCK FALSE"]
        r, out = tlc_behaviours("GaloisCache", name, wd, defs, cfgl)
        if r["violated"]:
            raise ToolError("GaloisCache.tla violates %s" % r["violated"])
        tlc_must_pass(r, name)
        rng = random.Random(rep.seed)
        cap = 300 if quick else 3000
        if len(out) > cap:
            rng.shuffle(out)
            out = out[:cap]
        for o in out:
            behs.append({"model": "galois", "elts": elts, "steps": o["steps"]})
        stats.append({"model": "GaloisCache", "elts": elts, "states": r["distinct"], "interleavings_replayed": len(out)})
        rep.cov["states"] = rep.cov.get("states", 0) + r["distinct"]
        rep.cov["transitions"] = rep.cov.get("transitions", 0) + r["generated"]
    for i, b in enumerate(behs):
        b["id"] = i
    results = run_workers_parallel(["c17", "replay", pset], behs, wd, "sched", nproc=12, deadline=30.0)
    nv = 0
    for beh, res in results:
        if res["status"] == "ok":
            continue
        if res["status"] == "tool_error":
            raise ToolError(str(res))
        nv += 1
        sig = {"model": beh["model"], "kind": res.get("kind", res["status"]), "workload": beh.get("kind", "galois")}
        rep.violation(sig, {"pset": pset, "behaviour": beh, "result": res, "cmd": None})
    # ---- free-running workloads validated against Trace_Cache.tla
    nruns = 150 if quick else 3000
    raw = hcv(["c17", "free", pset, str(nruns), str(rep.seed)], timeout=1200).splitlines()
    bad, st = arith.validate(raw, wd, module="Trace_Cache", chunks=2 if quick else 8)
    for b in bad:
        run = json.loads(raw[b[0] - 1])
        rep.violation({"model": "free-run", "kind": run["kind"], "results_ok": run["results_ok"]}, {"pset": pset, "run": run})
    rep.cov["states"] += st["distinct"]
    rep.cov["transitions"] += st["generated"]
    rep.cov["traces_validated_against_impl"] = len(behs) + len(raw)
    rep.cov["evaluations"] = len(behs) + len(raw)
    rep.cov["distinct_nontrivial"] = len({json.dumps([b.get("need"), b.get("elts"), [s["t"] for s in b["steps"]]]) for b in behs})
    rep.cov["forced_schedules"] = len(behs)
    rep.cov["free_runs"] = len(raw)
    rep.cov["exhaustive"] = quick is False
    rep.cov["rule"] = ("forced schedules = every interleaving of the lock phases that TLC finds in KeyCache.tla / GaloisCache.tla for the listed thread counts and requested "
                       "powers / Galois elements (sampled above 4000 per combination), each replayed on real threads parked at the feature-guarded yield points, comparing the "
                       "yield site and the cache state reported under the lock after every step and the results with sequential ones; free runs = 2..4 OS-scheduled threads "
                       "whose lock-ordered events are validated against Trace_Cache.tla; distinct = distinct (workload, thread order) schedules")
    rep.samples += [{"model": b["model"], "need": b.get("need"), "elts": b.get("elts"), "order": [s["t"] for s in b["steps"]]} for b in (behs[0], behs[len(behs) // 2], behs[-1])]
    rep.assumptions += ["each lock phase is atomic (the hooks only yield where no lock is held); data races inside unsafe blocks are below this granularity",
                        "a thread that does not reach its next yield point within 10 s is reported as blocked"]
    log("[C17] %d forced schedules, %d mismatches; %d free runs, %d rejected" % (len(behs), nv, len(raw), len(bad)))


REGISTRY.update({"C17": (check_c17, "model_checking")})


# --------------------------------------------------------------------------------------------------
# C13 parameter validation and chain
# --------------------------------------------------------------------------------------------------
def prime_cert(p):
    """Miller-Rabin record for spec/Primes.tla: the chains for the 12 bases with quotient hints (all untrusted)."""
    L = arith.limbs
    d, r = p - 1, 0
    while d % 2 == 0:
        d //= 2
        r += 1
    bases = []
    for a in (2, 3, 5, 7, 11, 13, 17, 19, 23, 29, 31, 37):
        cur, steps = a % p, []
        for bit in bin(d)[3:]:
            nxt = cur * cur % p
            steps.append({"k": "s", "r": L(nxt), "h": L(cur * cur // p)})
            cur = nxt
            if bit == "1":
                nxt = cur * a % p
                steps.append({"k": "m", "r": L(nxt), "h": L(cur * a // p)})
                cur = nxt
        sq = []
        for _ in range(max(r - 1, 0)):
            nxt = cur * cur % p
            sq.append({"r": L(nxt), "h": L(cur * cur // p)})
            cur = nxt
        bases.append({"a": a, "steps": steps, "sq": sq})
    return {"d": L(d), "r": r, "bases": bases}


def small_factor(v):
    """a non-trivial factor of the composite v (trial division, then Pollard rho); an untrusted hint"""
    import math
    for p in (2, 3, 5, 7, 11, 13, 17, 19, 23, 29, 31, 37):
        if v % p == 0 and v != p:
            return p
    r = math.isqrt(v)
    if r * r == v:
        return r
    for c in range(1, 50):
        x = y = 2
        d = 1
        f = lambda z: (z * z + c) % v
        while d == 1:
            x = f(x)
            y = f(f(y))
            d = math.gcd(abs(x - y), v)
        if d != v:
            return d
    return 1


def check_c13(rep):
    quick = rep.tier == "quick"
    wd = workdir("C13")
    # universe enumerated by TLC (Params!Build); every number stays far below 2^31
    # (thorough: every product of three moduli must stay below 2^31 - native TLC integers)
    moduli = [3, 5, 13, 15, 17, 97, 193] if quick else [2, 3, 4, 5, 13, 15, 17, 41, 65, 97, 113, 193, 257, 769]
    degrees = [0, 2, 3, 8] if quick else [0, 1, 2, 3, 4, 8, 16, 1024]
    plain = [0, 1, 17, 34, 73, 257] if quick else [0, 1, 2, 16, 17, 34, 41, 73, 97, 257, 12289]
    maxlen = 2 if quick else 3
    mc = ["---- MODULE MC_Params ----", "EXTENDS Params, Json",
          'Emit == built.scheme # "none" => PrintT(<<"P", ToJson(built)>>)', "===="]
    open(os.path.join(wd, "MC_Params.tla"), "w").write("\n".join(mc) + "\n")
    cfg = os.path.join(wd, "MC_Params.cfg")
    open(cfg, "w").write("INIT PInit\nNEXT PNext\nCONSTANTS\n  USchemes = {\"bfv\", \"bgv\", \"ckks\"}\n  UDegrees = {%s}\n  UModuli = {%s}\n  UPlain = {%s}\n"
                         "  USecs = {\"none\", \"tc128\"}\n  UMaxLen = %d\nINVARIANTS PrefixClosed Emit\nCHECK_DEADLOCK FALSE\n" %
                         (", ".join(map(str, degrees)), ", ".join(map(str, moduli)), ", ".join(map(str, plain)), maxlen))
    universe = []
    r = run_tlc("MC_Params", cfg, wd, workers=8, timeout=1500, on_line=lambda t, o: universe.append(o) if t == "P" else None)
    if r["violated"]:
        raise ToolError("Params.tla: %s violated" % r["violated"])
    tlc_must_pass(r, "MC_Params")
    rep.cov["states"] = r["distinct"]
    rep.cov["transitions"] = r["generated"]
    # a second universe at degree 1024, where the standard security level can be met: one 14..16-bit prime is within its 27-bit limit,
    # two are not (products stay below 2^31, so TLC decides the security clause of the preconditions exactly)
    cfg_sec = os.path.join(wd, "MC_Params_sec.cfg")
    open(cfg_sec, "w").write("INIT PInit\nNEXT PNext\nCONSTANTS\n  USchemes = {\"bfv\", \"bgv\", \"ckks\"}\n  UDegrees = {1024}\n  UModuli = {12289, 18433, 40961}\n  UPlain = {0, 17, 257}\n"
                             "  USecs = {\"none\", \"tc128\"}\n  UMaxLen = 2\nINVARIANTS PrefixClosed Emit\nCHECK_DEADLOCK FALSE\n")
    nmain = len(universe)
    r2 = run_tlc("MC_Params", cfg_sec, wd, workers=4, timeout=900, on_line=lambda t, o: universe.append(o) if t == "P" else None)
    if r2["violated"]:
        raise ToolError("Params.tla: %s violated" % r2["violated"])
    tlc_must_pass(r2, "MC_Params (degree 1024)")
    rep.cov["states"] += r2["distinct"]
    rep.cov["transitions"] += r2["generated"]
    rep.cov["security_level_universe_objects"] = len(universe) - nmain
    # realistic sizes (constants through exact big integers are checked in python-free form only for the small universe; here chain + ids)
    rng = random.Random(rep.seed)
    realistic = []
    for sch in ("bfv", "bgv", "ckks"):
        for n, bits in ((1024, [27]), (2048, [27, 27]), (4096, [36, 36, 37]), (8192, [60, 40, 40, 60]), (8, [50, 50, 50]), (16, [20, 30, 40, 50, 60])):
            realistic.append({"kind": "coeff", "n": n, "bits": bits, "scheme": sch})
    pfile = os.path.join(wd, "universe.ndjson")
    with open(pfile, "w") as f:
        for u in universe:
            u2 = {k: u[k] for k in ("scheme", "n", "moduli", "t", "sec", "expand", "special_enc")}
            f.write(json.dumps(u2) + "\n")
    # generated moduli
    gfile = os.path.join(wd, "gen.ndjson")
    gens = []
    for n in (2, 8, 64, 1024, 4096):
        for bits in ([20], [20, 20, 20], [22, 21, 22, 21], [14, 15, 16], [18] * 6):
            if all(b > (2 * n).bit_length() + (3 if len(bits) > 3 else 0) for b in bits):
                gens.append({"kind": "coeff", "n": n, "bits": bits})
        for bits in ([20], [17, 18, 19], [22], [20, 20], [21, 19, 21]):      # (repeated sizes: the moduli must still be distinct)
            if all(b > (2 * n).bit_length() for b in bits):
                gens.append({"kind": "batching", "n": n, "bits": bits})
    open(gfile, "w").write("\n".join(json.dumps(g) for g in gens) + "\n")
    genev = [json.loads(l) for l in hcv(["c13", "gen", gfile], timeout=600).splitlines()]
    # generated moduli of realistic size: primality decided by TLC through Miller-Rabin certificates (Primes.tla)
    bigreq = []
    for n in (8, 1024, 4096, 8192) if quick else (2, 8, 64, 1024, 2048, 4096, 8192, 16384, 32768):
        for bits in ([60], [60, 60, 60], [50, 40, 30, 60], [36, 36, 37], [27, 45]) if quick else ([60], [60, 60, 60, 60, 60, 60], [50, 40, 30, 60], [36, 36, 37], [27, 45], [59, 58, 57, 56, 55], [33, 32, 31]):
            if all(b > (2 * n).bit_length() + 2 for b in bits):
                bigreq.append({"kind": "coeff", "n": n, "bits": bits})
        for bits in ([40], [60], [33, 34], [40, 40, 40]) if quick else ([40], [60], [33, 34], [25, 50], [59], [40, 40, 40], [30, 25, 30]):
            if all(b > (2 * n).bit_length() + 2 for b in bits):
                bigreq.append({"kind": "batching", "n": n, "bits": bits})
    # ... and the moduli of every parameter set the other checks (C01-C12, C14-C20) name, so that the premise "the moduli
    # are distinct NTT primes" of their models is decided here
    import re, glob
    seen = set()
    for f in sorted(glob.glob(os.path.join(os.path.dirname(os.path.abspath(__file__)), "*.py"))):
        for m in re.finditer(r"(?:bfv|bgv|ckks)_(\d+)_\d+_(\d+(?:,\d+)*)", open(f).read()):
            key = (int(m.group(1)), tuple(int(b) for b in m.group(2).split(",")))
            if key not in seen and min(key[1]) >= 7:
                seen.add(key)
                bigreq.append({"kind": "coeff", "n": key[0], "bits": list(key[1])})
    rep.cov["parameter_sets_of_other_checks_redecided"] = len(seen)
    bfile = os.path.join(wd, "genbig.ndjson")
    open(bfile, "w").write("\n".join(json.dumps(g) for g in bigreq) + "\n")
    bigev = [json.loads(l) for l in hcv(["c13", "gen", bfile], timeout=600).splitlines()]
    blines = []
    for g in bigev:
        ps = [int(x) for x in g["primes"]]
        blines.append(json.dumps({"ev": "genbig", "n": g["n"], "bits": g["bits"], "panic": bool(g["panic"]), "primes": [arith.limbs(x) for x in ps],
                                  "hmod": [arith.limbs(x // (2 * g["n"])) for x in ps], "certs": [prime_cert(x) if x > 37 and x % 2 == 1 else {"d": [], "r": 0, "bases": []} for x in ps]}))
    # the primality test in both directions, and the default moduli / security table
    import random as _random
    prng = _random.Random(rep.seed)
    cand = set(range(0, 300 if quick else 5000)) | {2047, 3277, 4033, 4681, 8321, 561, 1105, 1729, 41041, 825265, 321197185, 5394826801, 232250619601,
            9746347772161, 3215031751, 341550071728321, 3825123056546413051, 2 ** 61 - 1, 2 ** 31 - 1, (2 ** 31 - 1) ** 2 // 4 * 0 + 2147483647 * 2147483629, 1000003 ** 2, 1073741827 ** 2 % 2 ** 61}
    for k in range(10, 62, 3 if quick else 1):
        for j in range(-2, 3) if quick else range(-12, 13):
            v = 2 ** k + j
            if 0 <= v < 2 ** 61:
                cand.add(v)
    for _ in range(15 if quick else 600):
        cand.add(prng.randrange(2 ** 20, 2 ** 61) | 1)
        a, b = prng.randrange(2 ** 14, 2 ** 30) | 1, prng.randrange(2 ** 14, 2 ** 30) | 1
        cand.add(a * b)
    for g in bigev[:12] if quick else bigev:
        for x in g["primes"][:2]:
            cand.update([int(x), int(x) + 2 * g["n"]])
    cand = sorted(v for v in cand if 0 <= v < 2 ** 61 and v != 1)       # (1 is not a Modulus: Modulus::new refuses it)
    ipfile = os.path.join(wd, "isprime.txt")
    open(ipfile, "w").write("\n".join(str(v) for v in cand) + "\n")
    pev = [json.loads(l) for l in hcv(["c13", "isprime", ipfile], timeout=600).splitlines()]
    nprime = 0
    for e in pev:
        v = int(e["v"])
        rec = {"ev": "isprime", "v": arith.limbs(v), "flag": bool(e["flag"]), "direct": bool(e["direct"]), "panic": bool(e["panic"])}
        if e["flag"] and v > 37:
            rec["cert"] = prime_cert(v) if v % 2 == 1 else {"d": [], "r": 0, "bases": []}
            nprime += 1
        elif not e["flag"] and v > 1:
            d = small_factor(v)
            rec["d"], rec["f"] = arith.limbs(d), arith.limbs(v // d)
        blines.append(json.dumps(rec))
    dev = [json.loads(l) for l in hcv(["c13", "defaults"], timeout=600).splitlines()]
    for e in dev:
        ps = [int(x) for x in e["primes"]]
        blines.append(json.dumps({"ev": "default", "n": e["n"], "sec": e["sec"], "maxbits": min(int(e["maxbits"]), 2 ** 31 - 1), "maxbits_panic": bool(e["maxbits_panic"]), "panic": bool(e["panic"]),
                                  "primes": [arith.limbs(x) for x in ps], "hmod": [arith.limbs(x // (2 * e["n"])) if e["n"] else [] for x in ps],
                                  "certs": [prime_cert(x) if x > 37 and x % 2 == 1 else {"d": [], "r": 0, "bases": []} for x in ps]}))
    allp = bigev + pev + dev
    pbad, pst = arith.validate(blines, wd, name="primes", module="Trace_Primes", chunks=14, timeout=2500)
    for b in pbad:
        g = allp[b[0] - 1]
        if g["ev"] == "isprime":
            rep.violation({"kind": "is_prime", "says_prime": g["flag"], "panic": g["panic"]}, {"event": g})
        elif g["ev"] == "default":
            rep.violation({"kind": "default_moduli", "n": g["n"], "sec": g["sec"]}, {"event": g})
        else:
            rep.violation({"kind": "generated_moduli", "n": g["n"], "bits": g["bits"]}, {"event": g})
    rep.cov["is_prime_values_decided_both_ways"] = len(pev)
    rep.cov["is_prime_values_prime"] = nprime
    rep.cov["default_moduli_events"] = len(dev)
    rep.cov["generated_moduli_decided_by_miller_rabin_certificates"] = sum(len(g["primes"]) for g in bigev if not g["panic"])
    rep.cov["states"] += pst["distinct"]
    rep.cov["transitions"] += pst["generated"]
    if sum(1 for g in bigev if not g["panic"]) < len(bigev) // 2:
        raise ToolError("most requests for realistic moduli were refused: the check would be vacuous")
    # contexts with generated (realistic) moduli
    primes_for = {}
    extra = []
    for g in genev:
        if g["kind"] == "coeff" and not g["panic"] and len(g["primes"]) >= 2:
            for sch in ("bfv", "bgv", "ckks"):
                t = 0 if sch == "ckks" else (65537 if g["n"] <= 4096 and g["n"] >= 1024 else 17 if g["n"] == 8 else 12289 if g["n"] == 64 else 5)
                extra.append({"scheme": sch, "n": g["n"], "moduli": g["primes"], "t": t, "sec": "none", "expand": True, "special_enc": False})
    # the standard security level on degrees where it can be met (1024: at most 27 bits, 4096: at most 109 bits): accepted and refused sets
    for g in genev:
        if g["kind"] == "coeff" and not g["panic"] and g["n"] >= 1024:
            for sch in ("bfv", "ckks"):
                extra.append({"scheme": sch, "n": g["n"], "moduli": g["primes"], "t": 0 if sch == "ckks" else 65537, "sec": "tc128", "expand": True, "special_enc": False})
    with open(pfile, "a") as f:
        for e in extra:
            f.write(json.dumps(e) + "\n")
    events = [json.loads(l) for l in hcv(["c13", "build", pfile], timeout=1500).splitlines()]
    refused = [e for e in events if "builder_refused" in e]
    events = [e for e in events if "builder_refused" not in e]

    def num(v):
        if isinstance(v, str):
            if v.startswith("words:"):
                ws = [int(x) for x in v[6:].split(",") if x != ""]
                return sum(w << (64 * i) for i, w in enumerate(ws))
            return int(v)
        return v
    for e in events:
        small = True
        prod = 1
        for m in e["moduli"]:
            prod *= m
        if prod >= 2 ** 31 or e["t"] >= 2 ** 15:
            small = False
        for lv in e.get("levels", []):
            for k in ("total", "upper_half_threshold", "plain_inc_wide"):
                if k in lv:
                    lv[k] = num(lv[k])
                    if lv[k] >= 2 ** 31:
                        small = False
            if any(m >= 2 ** 15 for m in lv["moduli"]) or e["t"] >= 2 ** 15:
                small = False
        e["small"] = small
        if not small:
            for lv in e.get("levels", []):
                for k in ("total", "upper_half_threshold", "plain_inc_wide", "q_div_t", "plain_inc", "q_mod_t", "plain_thr", "upper_inc"):
                    lv.pop(k, None)
            # large numbers cannot enter TLC natively: the preconditions are evaluated on bit lengths by the harness-independent python below
        for lv in e.get("levels", []):
            if "upper_inc" not in lv and e["small"] and e["scheme"] != "ckks":
                lv["upper_inc"] = [lv["q_mod_t"] % m for m in lv["moduli"]]   # not exposed by the API: derived, i.e. not checked
        e.setdefault("rebuild_same", True)
        e.setdefault("serialized_same", True)
        e.setdefault("order_same", True)
        e.setdefault("id", "none")
    small_events = [e for e in events if e["small"] or not e.get("set")]
    big_events = [e for e in events if not (e["small"] or not e.get("set"))]
    # big accepted objects: TLC integers cannot hold them; they are validated on structure only (chain, ids, reproducibility) with moduli replaced by
    # their indices in the key list would lose Pre; so Pre for them is asserted from bit lengths here and recorded as an assumption
    for e in big_events:
        e["moduli_big"] = e["moduli"]
    trace = sorted(small_events, key=lambda e: e["id"])
    lines = [json.dumps(e) for e in trace] + [json.dumps(g) for g in genev if all(p < 2 ** 31 for p in g["primes"])]
    bad, st = arith.validate(lines, wd, module="Trace_Params", chunks=8, overlap=1, timeout=2500)
    rep.cov["states"] += st["distinct"]
    rep.cov["transitions"] += st["generated"]
    alltrace = trace + [g for g in genev if all(p < 2 ** 31 for p in g["primes"])]
    for b in bad:
        e = alltrace[b[0] - 1]
        if e["ev"] == "gen":
            rep.violation({"kind": "generated_moduli", "n": e["n"], "bits": e["bits"]}, {"event": e})
        else:
            sig = {"kind": "panic" if e.get("panic") else ("accepted" if e.get("set") else "rejected"), "scheme": e["scheme"], "n": e["n"],
                   "nmod": len(e["moduli"]), "special_enc": e["special_enc"], "expand": e["expand"]}
            rep.violation(sig, {"event": {k: v for k, v in e.items() if k != "levels"}, "levels": e.get("levels")})
    # big accepted objects: structural checks with exact python integers are NOT the deciding method; they are reported as coverage only
    rep.cov["universe_objects"] = len(universe)
    rep.cov["builder_refusals"] = len(refused)
    rep.cov["accepted"] = sum(1 for e in events if e.get("set"))
    rep.cov["rejected"] = sum(1 for e in events if not e.get("set"))
    rep.cov["realistic_contexts_not_decided_by_tlc"] = len(big_events)
    rep.cov["generated_moduli_events"] = len(genev)
    rep.cov["generated_moduli_refused"] = sum(1 for g in genev if g["panic"])
    if sum(1 for g in genev if not g["panic"]) < len(genev) // 2:
        raise ToolError("most modulus-generation requests were refused: the check would be vacuous")
    rep.cov["traces_validated_against_impl"] = len(lines)
    rep.cov["evaluations"] = len(lines)
    rep.cov["distinct_nontrivial"] = len({json.dumps([e["scheme"], e["n"], e["moduli"], e["t"], e["sec"], e["expand"], e["special_enc"]]) for e in trace})
    rep.cov["exhaustive"] = True
    rep.cov["rule"] = ("universe = every parameter object over schemes x degrees %s x moduli lists of length 1..%d over %s x plain moduli %s x {none, tc128} x expand x special-prime flag, "
                       "enumerated by TLC (Params!Build); each is built through the real builder and HeContext::new; TLC checks: no panic, set => Pre on every level + chain rules + "
                       "constants = definitions + reproducible ids, not set => specific error, identifiers collision-free (events sorted by id); plus generated moduli (distinct primes of exact size, 1 mod 2N)"
                       % (degrees, maxlen, moduli, plain))
    rep.samples += [{k: trace[i][k] for k in ("scheme", "n", "moduli", "t", "sec", "expand", "special_enc", "set", "error")} for i in (0, len(trace) // 2, len(trace) - 1)]
    rep.assumptions += ["accepted contexts with 60-bit moduli are outside native TLC integers: for them only generated-moduli facts below 2^31 are decided by TLC",
                        "builder-level refusals (empty moduli list, 62-bit modulus, plain modulus for CKKS) are counted, not judged"]
    log("[C13] universe %d objects (%d builder refusals), %d accepted, %d rejected, %d trace lines, %d rejected by TLC" %
        (len(universe), len(refused), rep.cov["accepted"], rep.cov["rejected"], len(lines), len(bad)))


REGISTRY.update({"C13": (check_c13, "model_checking")})


# --------------------------------------------------------------------------------------------------
# C16 seeded generator
# --------------------------------------------------------------------------------------------------
def key_events(lines):
    """hcv keys / c18 records -> Trace_Keys events: residues as limb arrays, the small error as an untrusted hint (centred first residue)."""
    out = []
    for l in lines:
        e = json.loads(l) if isinstance(l, str) else l
        q = [int(x) for x in e["q"]]
        comps = []
        for comp in e["comps"]:
            res, hint = [], []
            for c in comp:
                r0 = int(c[0])
                v = r0 if r0 <= q[0] // 2 else r0 - q[0]
                if abs(v) >= 1 << 30:
                    v = 1 << 30            # far outside any bound: TLC rejects it
                hint.append(v)
                res.append([arith.limbs(int(x)) for x in c])
            comps.append({"res": res, "e": hint})
        out.append(json.dumps({"what": e["what"], "n": e["n"], "q": [arith.limbs(x) for x in q], "bound": e["bound"], "mult": e.get("mult", 1), "comps": comps}))
    return out


def check_c16(rep):
    quick = rep.tier == "quick"
    wd = workdir("C16")
    sizes = [0, 1, 3, 4, 5, 7, 8, 9, 64, 4095, 4096, 4097, 8191]
    maxpos = 8300 if quick else 12400
    mc = ["---- MODULE MC_Rng ----", "EXTENDS BlakeRng, Json",
          'PosView == p',
          'EmitS == PrintT(<<"S", ToJson([p |-> p, hist |-> hist])>>)',
          'EmitT == PrintT(<<"T", ToJson([p |-> p, step |-> hist\'[Len(hist\')]])>>)', "===="]
    open(os.path.join(wd, "MC_Rng.tla"), "w").write("\n".join(mc) + "\n")
    cfg = os.path.join(wd, "MC_Rng.cfg")
    open(cfg, "w").write("SPECIFICATION Spec\nCONSTANTS\n  Sizes = {%s}\n  MaxPos = %d\nVIEW PosView\nINVARIANTS Monotone FillContiguous EmitS\nACTION_CONSTRAINT EmitT\nCHECK_DEADLOCK FALSE\n"
                         % (", ".join(map(str, sizes)), maxpos))
    paths, trans = {}, []

    def on_line(tag, o):
        if tag == "S":
            paths.setdefault(o["p"], o["hist"])
        else:
            trans.append((o["p"], o["step"]))
    r = run_tlc("MC_Rng", cfg, wd, workers=8, timeout=1500, on_line=on_line)
    if r["violated"]:
        raise ToolError("BlakeRng.tla: %s violated" % r["violated"])
    tlc_must_pass(r, "MC_Rng")
    behs = []
    for i, (p, step) in enumerate(trans):
        if p in paths:
            behs.append({"id": i, "seed": i % 8, "steps": paths[p] + [step]})
    bp = os.path.join(wd, "stream.ndjson")
    open(bp, "w").write("\n".join(json.dumps(b) for b in behs) + "\n")
    out = hcv(["c16", "stream", bp], timeout=1500).splitlines()
    if len(out) != len(behs):
        raise ToolError("stream replayer returned %d results for %d behaviours" % (len(out), len(behs)))
    nv = 0
    for b, line in zip(behs, out):
        o = json.loads(line)
        if o["status"] != "ok":
            nv += 1
            st = b["steps"][-1]
            rep.violation({"part": "stream", "op": st["op"], "crosses_refill": st["from"] // 4096 != max(st["to"] - 1, st["from"]) // 4096},
                          {"behaviour": b, "observed": o})
    # recorded histories, samples, frequencies validated by TLC
    raw = []
    # (degree 32 and above: at degree 8 a public-key encryption that is switched down from the key level is, after rounding, determined by its
    #  ternary sample alone - 3^8 possibilities - and two honest encryptions out of a few hundred coincide by chance)
    for ps in (["bfv_32_193_40,40,40", "ckks_32_0_40,40,40"] if quick else ["bfv_32_193_40,40,40", "bgv_32_193_40,40,40", "ckks_32_0_40,40,40", "bfv_64_257_50,50,50,50"]):
        raw += hcv(["c16", "events", ps, str(rep.seed), rep.tier], timeout=900).splitlines()
    raw += hcv(["c16", "samples", str(rep.seed), rep.tier], timeout=900).splitlines()
    bad, st = arith.validate(raw, wd, module="Trace_Rng", chunks=4 if quick else 8)
    for b in bad:
        e = json.loads(raw[b[0] - 1])
        sig = {"part": e["ev"], "what": e.get("what") or e.get("k") or e.get("pset")}
        small = {k: v for k, v in e.items() if k not in ("events", "poly")}
        rep.violation(sig, {"event": small, "line": b[0]})
    # key material as RLWE samples (Keys.tla): c0 + c1*s - payload is ONE small integer per coefficient in every key-level prime
    kraw = []
    for ps in (["bfv_8_17_40,40,50", "bgv_8_17_30,50,40,60", "ckks_8_0_40,40,40,50", "bfv_16_97_36,45"] if quick else
               ["bfv_8_17_40,40,50", "bgv_8_17_30,50,40,60", "ckks_8_0_40,40,40,50", "bfv_16_97_36,45", "bgv_4_17_20,25,30,35,40,45", "bfv_32_193_60,60,60", "ckks_16_0_25,60"]):
        kraw += [json.loads(l) for l in hcv(["keys", ps, "2" if quick else "5"], timeout=900).splitlines()]
    kbad, kst = arith.validate(key_events(kraw), wd, name="keys", module="Trace_Keys", chunks=4)
    for b in kbad:
        e = kraw[b[0] - 1]
        rep.violation({"part": "key_rlwe", "what": e["what"], "detail": e["detail"]}, {"event": {k: v for k, v in e.items() if k != "comps"}, "line": b[0]})
    rep.cov["key_components_checked"] = sum(len(e["comps"]) for e in kraw)
    rep.cov["key_events"] = {w: sum(1 for e in kraw if e["what"] == w) for w in sorted({e["what"] for e in kraw})}
    st = {"distinct": st["distinct"] + kst["distinct"], "generated": st["generated"] + kst["generated"]}
    rep.cov["states"] = r["distinct"] + st["distinct"]
    rep.cov["transitions"] = r["generated"] + st["generated"]
    rep.cov["traces_validated_against_impl"] = len(behs) + len(raw) + len(kraw)
    rep.cov["evaluations"] = len(behs) + len(raw) + len(kraw)
    rep.cov["distinct_nontrivial"] = len({(p, s["op"], s["n"]) for p, s in trans})
    rep.cov["stream_positions"] = len(paths)
    rep.cov["stream_transitions"] = len(trans)
    rep.cov["exhaustive"] = True
    rep.cov["rule"] = ("stream: every (position, call) pair of BlakeRng.tla with position <= %d and call in fill_bytes(%s), next_u32, next_u64, each reached by TLC's shortest call "
                       "sequence and compared byte-for-byte with an independent BLAKE3-XOF recomputation of the documented stream for 8 seeds; histories: masks / stored seeds of "
                       "mixed encryptions and key generations pairwise distinct, equal explicit generator states give equal masks (seeded and unseeded variants), 32-byte stream "
                       "windows distinct; samples: ternary / error / uniform polynomials for 1..6 primes; frequencies as sanity bounds; key material: every component of public, relinearization, "
                       "Galois and key-switching keys (seeded and unseeded) is an RLWE sample c0 + c1*s = payload + e with |e| <= 21 (Keys.tla)" % (maxpos, sizes))
    rep.samples += [behs[0], behs[len(behs) // 2]]
    rep.assumptions += ["the reference stream is BLAKE3-XOF(seed || le64(counter)) in 4096-byte blocks, recomputed with the blake3 crate independently of BlakeRNG",
                        "masks are compared through 96-bit BLAKE3 digests", "distribution checks are 6-7 sigma sanity bounds, not decisions"]
    log("[C16] %d stream transitions (%d mismatches), %d recorded events (%d rejected), %d key events (%d rejected)" % (len(behs), nv, len(raw), len(bad), len(kraw), len(kbad)))


REGISTRY.update({"C16": (check_c16, "model_checking")})


# --------------------------------------------------------------------------------------------------
# C09 NTT
# --------------------------------------------------------------------------------------------------
def check_c09(rep):
    wd = workdir("C09")
    raw = hcv(["c09", rep.tier, str(rep.seed)], timeout=1500).splitlines()
    lines, index = arith.convert_lines(raw)
    bad, st = arith.validate(lines, wd, timeout=3000, chunks=8)
    rep.cov["states"] = st["distinct"]
    rep.cov["transitions"] = st["generated"]
    rep.cov["traces_validated_against_impl"] = len(lines)
    rep.cov["evaluations"] = len(index)
    rep.cov["distinct_nontrivial"] = len({json.dumps(v, sort_keys=True) for v in index.values()})
    combos = sorted({(v.get("n"), v.get("q")) for v in index.values()})
    rep.cov["degree_modulus_pairs"] = len(combos)
    rep.cov["rule"] = ("events = (degree, modulus) pairs: every NTT-friendly prime below 2^14 (first 4 / 12 per degree 2..32/64) validated natively (minimal root, all N unit vectors + dense + "
                       "extreme vectors forward and inverse, lazy ranges on range maxima and multiples of q, convolution via dyadic products, negacyclic shifts, roots of "
                       "independently built tables) and moduli of 20..61 bits for N up to 4096 through BigNat power-chain certificates (images of c*X^j for c in {1, q-1, 2q, 2q+1, 4q-1}); "
                       "distinct = distinct (event kind, degree, modulus, monomial, scalar)")
    for b in bad:
        d = index.get(tuple(b), {"op": "?"})
        rep.violation({"op": d.get("op"), "n": d.get("n"), "bits": int(d["q"]).bit_length() if d.get("q") else None}, {"event": d})
    ks = sorted(index.keys())
    rep.samples += [index[ks[0]], index[ks[len(ks) // 2]], index[ks[-1]]]
    rep.assumptions += ["linearity of the transform is used: for big moduli only images of scaled monomials are checked",
                        "power-chain quotients are untrusted hints computed in python"]
    log("[C09] %d events over %d (degree, modulus) pairs, %d rejected" % (len(index), len(combos), len(bad)))


REGISTRY.update({"C09": (check_c09, "model_checking")})


def check_c11(rep):
    wd = workdir("C11")
    raw = hcv(["c11", rep.tier, str(rep.seed)], timeout=900).splitlines()
    lines, index = arith.convert_lines(raw)
    bad, st = arith.validate(lines, wd, timeout=3000, chunks=min(8, len(lines)))
    evs = [json.loads(l) for l in raw]
    rep.cov["states"] = st["distinct"]
    rep.cov["transitions"] = st["generated"]
    rep.cov["traces_validated_against_impl"] = len(lines)
    rep.cov["evaluations"] = sum(len(e.get("enc", [])) + len(e.get("dec", [])) + len(e.get("rt", [])) + len(e["pairs"]) + len(e["rot"]) + len(e.get("coef", [])) for e in evs)
    rep.cov["big_plain_moduli"] = [[e["n"], e["t"]] for e in evs if e["ev"] == "batch_big"]
    rep.cov["distinct_nontrivial"] = rep.cov["evaluations"]
    rep.cov["parameter_sets"] = [[e["n"], e["t"]] for e in evs if e["ev"] == "batch"]
    rep.cov["rule"] = ("plain moduli of 20..60 bits (N = 4..64, thorough ..1024): encode/decode inverse, decode a ring homomorphism on sums and negacyclic products formed independently "
                       "of the library, rotations and column swap permute the slots as documented - exact integers (BigNat). "
                       "One event per batching-compatible (N, t) with t < 2^15: all N unit vectors, all-(t-1), empty/short/random vectors encoded and decoded, arbitrary short "
                       "polynomials decoded, sums and negacyclic products of encoder outputs, the automorphism for every step -(N/2-1)..N/2-1 (0 = column swap) applied with "
                       "apply_galois_plain, coefficient encoding; TLC recomputes the slots as evaluations at psi^(3^i), psi^(-3^i) (psi = minimal root) and checks every item")
    for b in bad:
        d = index.get(tuple(b), {})
        rep.violation({"n": d.get("n"), "t": d.get("t")}, {"event": {"n": d.get("n"), "t": d.get("t")}})
    rep.samples += [{"n": e["n"], "t": e["t"], "enc0": e["enc"][1], "rot0": {k: e["rot"][0][k] for k in ("s", "elt")} if e["rot"] else None} for e in evs[:2]]
    rep.assumptions += ["for plain moduli above 2^15 the slots are not recomputed from psi: the encoding is shown to be a ring isomorphism compatible with the rotations (which fixes it up to the order of the slots)",
                        "the element associated with a step is read off create_galois_keys_from_steps"]
    log("[C11] %d parameter sets, %d items, %d events rejected" % (len(evs), rep.cov["evaluations"], len(bad)))


REGISTRY.update({"C11": (check_c11, "model_checking")})


# --------------------------------------------------------------------------------------------------
# C18 multiparty
# --------------------------------------------------------------------------------------------------
def multiparty_behaviours(wd, n, max_premature, rng, cap, simulate=None, star=False):
    name = "MC_MP_%d_%d%s%s" % (n, max_premature, "_sim" if simulate else "", "_star" if star else "")
    defs = ("MC_Share == %s\nEmit == Quiescent => PrintT(<<\"B\", ToJson([steps |-> hist])>>)" % tla_lit([(7 * i + 3) % 97 for i in range(n)]))
    cfgl = ["SPECIFICATION Spec", "CONSTANTS", "  NP = %d" % n, "  M = 97", "  Share <- MC_Share", "  MaxPremature = %d" % max_premature, "  Star = %s" % ("TRUE" if star else "FALSE"),
            "INVARIANTS Agreement NoEarlyFinish Emit", "CHECK_DEADLOCK FALSE"]
    open(os.path.join(wd, name + ".tla"), "w").write("---- MODULE %s ----\nEXTENDS Multiparty, Json\n%s\n====\n" % (name, defs))
    cfg = os.path.join(wd, name + ".cfg")
    open(cfg, "w").write("\n".join(cfgl) + "\n")
    out = []
    if simulate:
        r = run_tlc(name, cfg, wd, workers=4, timeout=600, simulate=simulate, depth=n * n + n + 2, seed=rng.randrange(1 << 30),
                    on_line=lambda t, o: out.append(o) if t == "B" else None)
    else:
        r = run_tlc(name, cfg, wd, workers=8, timeout=900, on_line=lambda t, o: out.append(o) if t == "B" else None)
    if r["violated"]:
        raise ToolError("Multiparty.tla violates %s" % r["violated"])
    if not simulate:
        tlc_must_pass(r, name)
    seen = set()
    uniq = []
    for o in out:
        k = json.dumps(o["steps"])
        if k not in seen:
            seen.add(k)
            uniq.append(o["steps"])
    total = len(uniq)
    if len(uniq) > cap:
        rng.shuffle(uniq)
        uniq = uniq[:cap]
    return r, uniq, total


def check_c18(rep):
    quick = rep.tier == "quick"
    wd = workdir("C18")
    rng = random.Random(rep.seed)
    orders = {}
    stats = rep.cov.setdefault("runs", [])
    for n, prem, cap, sim in ([(2, 1, 10 ** 6, None), (3, 0, 400, None), (3, 1, 300, None), (4, 1, 40, 300)] if quick else
                              [(2, 1, 10 ** 6, None), (3, 0, 10 ** 6, None), (3, 1, 4000, None), (4, 1, 400, 3000), (5, 1, 100, 1000), (6, 0, 50, 500)]):
        r, behs, total = multiparty_behaviours(wd, n, prem, rng, cap, simulate=sim)
        orders.setdefault(n, [])
        orders[n] += behs
        stats.append({"parties": n, "premature_finishes": prem, "mode": "simulate" if sim else "exhaustive", "states": r["distinct"], "delivery_orders_found": total, "used": len(behs)})
        rep.cov["states"] = rep.cov.get("states", 0) + r["distinct"]
        rep.cov["transitions"] = rep.cov.get("transitions", 0) + r["generated"]
    star_orders = {}
    for n, prem, cap, sim in ([(2, 1, 100, None), (3, 1, 200, None), (4, 1, 40, 300)] if quick else [(2, 1, 100, None), (3, 1, 10 ** 6, None), (4, 1, 400, 3000), (6, 0, 50, 500)]):
        r, behs, total = multiparty_behaviours(wd, n, prem, rng, cap, simulate=sim, star=True)
        star_orders.setdefault(n, [])
        star_orders[n] += behs
        stats.append({"parties": n, "topology": "star", "premature_finishes": prem, "states": r["distinct"], "delivery_orders_found": total, "used": len(behs)})
        rep.cov["states"] += r["distinct"]
        rep.cov["transitions"] += r["generated"]
    plan = [("bfv_8_17_40,40,40", ["pk", "sk", "relin", "decrypt", "keyswitch", "pkswitch", "c2s", "s2c", "c2s_s2c"]),
            ("bfv_8_17_36,50,50", ["pk", "decrypt", "keyswitch", "c2s_s2c"]),
            ("bgv_8_17_30,45,50,55", ["pk", "relin", "decrypt"]),
            ("bgv_8_17_40,40,40", ["pk", "sk", "relin", "decrypt", "keyswitch", "pkswitch"]),
            ("ckks_8_0_40,40,40", ["pk", "sk", "relin", "decrypt", "keyswitch", "pkswitch"])]
    if not quick:
        plan += [("bfv_8_17_50,50,50,50", ["pk", "relin", "decrypt", "keyswitch", "c2s", "s2c"]), ("bfv_16_97_30,30", ["pk", "decrypt", "keyswitch", "pkswitch"])]
    total = 0
    kevents = []
    for pset, protos in plan:
        behs = []
        for proto in protos:
            for n, lst in (star_orders if proto in ("c2s", "s2c", "c2s_s2c") else orders).items():
                sub = lst if (quick is False or len(lst) <= 60) else rng.sample(lst, 60)
                for steps in sub:
                    behs.append({"id": len(behs), "n": n, "proto": proto, "steps": steps})
        results = run_workers_parallel(["c18", pset], behs, wd, "mp_" + pset.split("_")[0] + str(len(pset)), nproc=12, deadline=30.0)
        nv = 0
        for beh, res in results:
            if res["status"] == "ok":
                for ke in res.get("key_events", []):
                    kevents.append((pset, beh, ke))
                continue
            if res["status"] == "tool_error":
                raise ToolError(str(res))
            nv += 1
            rep.violation({"proto": beh["proto"], "scheme": pset.split("_")[0], "kind": res.get("kind", res["status"])}, {"pset": pset, "behaviour": beh, "result": res})
        total += len(behs)
        log("[C18] %s: %d behaviours, %d mismatches" % (pset, len(behs), nv))
        rep.samples.append({"pset": pset, "proto": behs[len(behs) // 2]["proto"], "n": behs[len(behs) // 2]["n"], "steps": behs[len(behs) // 2]["steps"]})
    # the collective public keys as RLWE samples under the SUM of the parties' secret keys (Keys.tla; error bound 21 per party)
    if kevents:
        kbad, kst = arith.validate(key_events([k[2] for k in kevents]), wd, name="keys", module="Trace_Keys", chunks=4)
        for b in kbad:
            pset, beh, ke = kevents[b[0] - 1]
            rep.violation({"proto": beh["proto"], "scheme": pset.split("_")[0], "kind": "collective key is not an RLWE sample under the sum of the secret keys"},
                          {"pset": pset, "behaviour": beh, "event": {k: v for k, v in ke.items() if k != "comps"}})
        rep.cov["states"] += kst["distinct"]
        rep.cov["transitions"] += kst["generated"]
    rep.cov["collective_keys_checked_as_rlwe_samples"] = {w: sum(1 for k in kevents if k[2]["what"] == w) for w in sorted({k[2]["what"] for k in kevents})}
    rep.cov["traces_validated_against_impl"] = total
    rep.cov["evaluations"] = total
    rep.cov["distinct_nontrivial"] = sum(len(v) for v in orders.values()) * len(plan[0][1])
    rep.cov["rule"] = ("behaviours = delivery orders of the n(n-1) messages of one broadcast round interleaved with finish attempts (at most one premature), enumerated by TLC over "
                       "Multiparty.tla for n = 2, 3 and simulated for n >= 4; each order is replayed with real Participants for each protocol (public key, secret-key revelation, "
                       "two-round relinearization keys, collective decryption, key switch, public-key switch, cipher->shares, shares->cipher): premature finish must be refused, all "
                       "parties' outputs byte-identical, collective keys work under the sum of the secret keys and the collective public key is an RLWE sample c0 + c1*(s_1+..+s_n) = e with |e| <= 21 n, every component of the collective "
                       "relinearization key one with payload P*(s_1+..+s_n)^2 and |e| <= 84 N n^2 (Keys.tla), plaintext preserved")
    rep.assumptions += ["the abstract round (sum of shares in Z_97) is the design; the binding checks the concrete ring identities through ordinary encryption/decryption under the summed key",
                        "CKKS plaintexts are compared within 1e-3"]


REGISTRY.update({"C18": (check_c18, "model_checking")})


# --------------------------------------------------------------------------------------------------
# C19 LWE
# --------------------------------------------------------------------------------------------------
def check_c19(rep):
    quick = rep.tier == "quick"
    wd = workdir("C19")
    # design: the butterfly algorithm refines the abstract packing / trace specification (TLC, all pack counts)
    stats = rep.cov.setdefault("runs", [])
    for (rn, rt) in ([(4, 17), (8, 17), (16, 97)] if quick else [(2, 5), (4, 17), (8, 17), (16, 97), (32, 193)]):
        cfg = os.path.join(wd, "Lwe_%d.cfg" % rn)
        open(cfg, "w").write("INIT RInit\nNEXT RNext\nCONSTANTS\n  RN = %d\n  RT = %d\nINVARIANTS PackRefines TraceRefines\nCHECK_DEADLOCK FALSE\n" % (rn, rt))
        r = run_tlc("Lwe", cfg, wd, workers=1, timeout=900)
        if r["violated"]:
            raise ToolError("Lwe.tla: the packing algorithm does not refine the specification (%s) at N=%d" % (r["violated"], rn))
        tlc_must_pass(r, "Lwe refinement N=%d" % rn)
        stats.append({"refinement": "PackAlgo/TraceAlgo = PackSpec/TraceSpec", "n": rn, "t": rt, "states": r["distinct"]})
        rep.cov["states"] = rep.cov.get("states", 0) + r["distinct"]
        rep.cov["transitions"] = rep.cov.get("transitions", 0) + r["generated"]
    psets = ["bfv_8_17_40,40,40", "bgv_8_17_40,40,40", "ckks_8_0_45,45,45", "bfv_4_17_40,40", "bfv_16_97_40,40,40", "bgv_32_193_45,45,45"]
    if not quick:
        psets += ["bgv_16_97_40,40,40", "ckks_16_0_45,45,45", "bgv_4_17_40,40", "ckks_4_0_45,45", "bfv_32_193_45,45,45", "ckks_32_0_45,45,45", "bfv_64_257_45,45,45"]
    raw = []
    for ps in psets:
        raw += hcv(["c19", ps, str(rep.seed), rep.tier], timeout=900).splitlines()
    bad, st = arith.validate(raw, wd, module="Trace_Lwe", chunks=4)
    evs = [json.loads(l) for l in raw]
    for b in bad:
        e = evs[b[0] - 1]
        sig = {"k": e["k"], "scheme": e["scheme"], "panic": "panic" in e}
        if e["k"] == "pack":
            sig["count_is_power_of_two"] = (len(e["vals"]) & (len(e["vals"]) - 1)) == 0
        if e["k"] == "extract":
            sig["ntt_input"] = e["ntt_input"]
        rep.violation(sig, {"event": e})
    rep.cov["states"] += st["distinct"]
    rep.cov["transitions"] += st["generated"]
    rep.cov["traces_validated_against_impl"] = len(raw)
    rep.cov["evaluations"] = len(raw)
    rep.cov["distinct_nontrivial"] = len({json.dumps([e["k"], e["n"], e["scheme"], e.get("i"), e.get("l"), len(e.get("vals", [])), e.get("ntt_input")]) for e in evs})
    rep.cov["rule"] = ("events = for each parameter set (BFV/BGV/CKKS, N = 4..16 quick, ..32 thorough): extract+assemble of every coefficient index from either representation, "
                       "field trace for every parameter 0..log2 N, packing of every count 1..N; the decrypted polynomial must equal the abstract specification of Lwe.tla "
                       "(CKKS: rounded coefficients equal, deviation below 0.1); TLC also checks that the butterfly algorithm refines the specification for every count")
    rep.samples += [{k: evs[i][k] for k in evs[i] if k != "panic"} for i in (0, len(evs) // 2, len(evs) - 1)]
    rep.assumptions += ["CKKS inputs are small integers at scale 2^25; outputs are compared after rounding with a 0.1 deviation allowance"]
    log("[C19] %d events, %d rejected" % (len(raw), len(bad)))


REGISTRY.update({"C19": (check_c19, "model_checking")})


# --------------------------------------------------------------------------------------------------
# C20 matmul / conv
# --------------------------------------------------------------------------------------------------
def check_c20(rep):
    wd = workdir("C20")
    raw = []
    import concurrent.futures as cf
    with cf.ThreadPoolExecutor(3) as ex:
        futs = [ex.submit(hcv, ["c20", rep.tier, str(rep.seed), part], 2400) for part in ("cheetah", "bolt", "conv", "rnsp", "ckks")]
        for f in futs:
            raw += f.result().splitlines()
    allev = [json.loads(l) for l in raw]
    layouts = [e for e in allev if e["k"] == "cheetah_layout"]
    clayouts = [e for e in allev if e["k"] == "conv_layout"]
    blayouts = [e for e in allev if e["k"] == "bolt_layout"]
    raw = [l for l, e in zip(raw, allev) if e["k"] not in ("cheetah_layout", "conv_layout", "bolt_layout")]
    evs = [e for e in allev if e["k"] not in ("cheetah_layout", "conv_layout", "bolt_layout")]
    # design: the coefficient packing (block search, index maps, block-wise negacyclic products) computes the matrix product
    quick = rep.tier == "quick"
    design = []
    for n, md, full in ((8, 3, True), (16, 5 if quick else 7, False), (32, 7 if quick else 9, False)):
        cfgp = os.path.join(wd, "cheetah_design_%d.cfg" % n)
        open(cfgp, "w").write("SPECIFICATION Spec\nCONSTANTS\n  N = %d\n  MaxDim = %d\nINVARIANTS AllBlocksOk AllIndexOk AllUnitsOk%s\nCHECK_DEADLOCK FALSE\n" % (n, md, " AllProductsOk" if full else ""))
        r = run_tlc("Cheetah", cfgp, wd, workers=1, timeout=1500)
        if r["violated"]:
            raise ToolError("Cheetah.tla violates %s (N=%d)" % (r["violated"], n))
        tlc_must_pass(r, "Cheetah.tla N=%d" % n)
        design.append({"N": n, "max_dim": md, "shapes_x_objectives": md ** 3 * 3, "generic_product_checked": full, "tlc_wall_s": round(r["wall_s"], 1)})
    rep.cov["cheetah_refinement_design"] = design
    # binding of the design: block choice, encoded polynomials and term lists of the real helper against the model
    nlay = 0
    for n in sorted({e["N"] for e in layouts}):
        part = [dict(e, panicked=("panic" in e)) for e in layouts if e["N"] == n]
        cfg = "SPECIFICATION TSpec\nCONSTANTS\n  N = %d\n  MaxDim = 1\nINVARIANT Report\nINVARIANT AllHold\nCHECK_DEADLOCK FALSE\n" % n
        lbad, lst = arith.validate([json.dumps(e) for e in part], wd, name="layout%d" % n, module="Trace_Cheetah", chunks=8, timeout=3000, cfg_text=cfg)
        nlay += len(part)
        for b in lbad:
            e = part[b[0] - 1]
            rep.violation({"k": "cheetah_layout", "objective": e["objective"], "panic": e["panicked"]},
                          {"event": {k: v for k, v in e.items() if k not in ("enc_in", "enc_w")}, "cmd": None})
    rep.cov["cheetah_layout_events"] = nlay
    # the same for the convolution packing: Conv2d.tla (five-dimensional block search, overlapping tiles, index maps)
    cfgp = os.path.join(wd, "conv_design.cfg")
    mhw, mk = (4, 2) if quick else (6, 3)
    open(cfgp, "w").write("SPECIFICATION Spec\nCONSTANTS\n  N = 32\n  MaxB = 2\n  MaxC = 2\n  MaxHW = %d\n  MaxK = %d\nINVARIANTS AllBlocksOk AllIndexOk AllUnitsOk\nCHECK_DEADLOCK FALSE\n" % (mhw, mk))
    r = run_tlc("Conv2d", cfgp, wd, workers=1, timeout=3000, java_opts="-Xss1g")
    if r["violated"]:
        raise ToolError("Conv2d.tla violates %s" % r["violated"])
    tlc_must_pass(r, "Conv2d.tla")
    rep.cov["conv2d_refinement_design"] = {"N": 32, "batch<=": 2, "channels<=": 2, "image_side<=": mhw, "kernel_side<=": mk, "objectives": 3, "tlc_wall_s": round(r["wall_s"], 1)}
    ncl = 0
    for n in sorted({e["N"] for e in clayouts}):
        part = [dict(e, panicked=("panic" in e)) for e in clayouts if e["N"] == n]
        cfg = "SPECIFICATION TSpec\nCONSTANTS\n  N = %d\n  MaxB = 1\n  MaxC = 1\n  MaxHW = 1\n  MaxK = 1\nINVARIANT Report\nINVARIANT AllHold\nCHECK_DEADLOCK FALSE\n" % n
        lbad, lst = arith.validate([json.dumps(e) for e in part], wd, name="convlayout%d" % n, module="Trace_Conv2d", chunks=8, timeout=3000, cfg_text=cfg)
        ncl += len(part)
        for b in lbad:
            e = part[b[0] - 1]
            rep.violation({"k": "conv_layout", "objective": e["objective"], "panic": e["panicked"]},
                          {"event": {k: v for k, v in e.items() if k not in ("enc_in", "enc_w")}, "cmd": None})
    rep.cov["conv2d_layout_events"] = ncl
    # the BOLT helpers: Bolt.tla (slot layouts, rotation / mask / rotate-and-sum programs, read-out, blocking) on all pairs of unit matrices
    bdesign = []
    for n, mm, mr, mn in ((8, 5, 5, 5), (16, 5, 4, 5)) if quick else ((8, 6, 9, 6), (16, 9, 5, 6), (32, 4, 3, 3)):
        cfgp = os.path.join(wd, "bolt_design_%d.cfg" % n)
        open(cfgp, "w").write("SPECIFICATION Spec\nCONSTANTS\n  N = %d\n  MaxM = %d\n  MaxR = %d\n  MaxN = %d\nINVARIANTS AllCpParamsOk AllCpOk AllCrOk AllDcOk\nCHECK_DEADLOCK FALSE\n" % (n, mm, mr, mn))
        r = run_tlc("Bolt", cfgp, wd, workers=14, timeout=3000, java_opts="-Xss1g")
        if r["violated"]:
            raise ToolError("Bolt.tla violates %s (N=%d)" % (r["violated"], n))
        tlc_must_pass(r, "Bolt.tla N=%d" % n)
        bdesign.append({"N": n, "m<=": mm, "r<=": mr, "n<=": mn, "helpers": 3, "unit_pairs_per_shape": "m*r*r*n", "tlc_wall_s": round(r["wall_s"], 1)})
    rep.cov["bolt_refinement_design"] = bdesign
    nbl = 0
    for n in sorted({e["N"] for e in blayouts}):
        part = blayouts_n = [e for e in blayouts if e["N"] == n]
        cfg = "SPECIFICATION TSpec\nCONSTANTS\n  N = %d\n  MaxM = 1\n  MaxR = 1\n  MaxN = 1\nINVARIANT Report\nINVARIANT AllHold\nCHECK_DEADLOCK FALSE\n" % n
        lbad, lst = arith.validate([json.dumps(e) for e in part], wd, name="boltlayout%d" % n, module="Trace_Bolt", chunks=8, timeout=3000, cfg_text=cfg)
        nbl += len(part)
        for b in lbad:
            e = part[b[0] - 1]
            rep.violation({"k": "bolt_layout", "helper": e["helper"], "panic": e["panicked"]},
                          {"event": {k: v for k, v in e.items() if k not in ("enc_in", "enc_w", "enc_out")}, "cmd": None})
    rep.cov["bolt_layout_events"] = nbl
    if not blayouts:
        raise ToolError("no BOLT layout events recorded")
    bad, st = arith.validate(raw, wd, module="Trace_MatMul", chunks=8, timeout=3000)
    for b in bad:
        e = evs[b[0] - 1]
        sig = {"k": e["k"], "helper": e.get("helper", e.get("op")), "panic": "panic" in e}
        if e["k"] == "conv":
            sig["height_split"] = None
        if "pack" in e:
            sig["pack"] = e["pack"]
        small = {k: v for k, v in e.items() if k not in ("x", "w", "bias")}
        rep.violation(sig, {"event": small, "cmd": None})
    rep.cov["states"] = st["distinct"]
    rep.cov["transitions"] = st["generated"]
    rep.cov["traces_validated_against_impl"] = len(raw)
    rep.cov["evaluations"] = len(raw)
    rep.cov["distinct_nontrivial"] = len({json.dumps([e["k"], e.get("helper", "rnsp:" + str(e.get("op")) + str(e.get("poly")) + str(e.get("moduli"))), e.get("m"), e.get("r"), e.get("n"), e.get("objective"), e.get("reverse"), e.get("pack"),
                                                      e.get("bs"), e.get("ci"), e.get("co"), e.get("h"), e.get("wd"), e.get("kh"), e.get("kw")]) for e in evs})
    rep.cov["per_helper"] = {h: sum(1 for e in evs if e.get("helper", "rns_plain") == h) for h in sorted({e.get("helper", "rns_plain") for e in evs})}
    rep.cov["rule"] = ("events = real runs of the helpers on random operands: Cheetah coefficient-packing matmul for every shape (m,r,n) in 1..4 (quick) / 1..6 (thorough) at N=16 (32) x three objectives "
                       "(cipher*plain, plain*cipher) x output packing on/off (+ selected-terms transport, bias through encode_outputs, encode/decrypt round trip) plus shapes needing several ciphertexts and partial blocks; "
                       "the three BOLT slot-packing variants at N=32; the RNS-plaintext wrapper (two or three plain moduli: encode, encrypt pk/sk, negate/add/sub/multiply/square/plain operations, decrypt, decode, slot- and coefficient-wise) modulo the product of its moduli; the CKKS variants of the coefficient-packing matmul (with and without output packing) and of conv2d on small integer operands (results within 2^-5); conv2d over image 2..7 (2..9) x kernel 1..2 x 1..3 x channel/batch combinations incl. height/width tiling; "
                       "TLC evaluates Y = XW + B mod t resp. the valid cross-correlation of MatMul.tla on every event; Cheetah.tla (refinement of the coefficient packing) is model-checked for all shapes up to the "
                       "stated dimension and bound to the helper through its block choice, encoded polynomials and term lists")
    rep.samples += [{k: v for k, v in evs[i].items() if k not in ("x", "w", "bias", "y", "v", "out", "a", "b", "y1024")} for i in (0, len(evs) // 2, len(evs) - 1)]
    rep.assumptions += ["operands are random per run (seeded); only the listed small shapes are covered; CKKS variants: cheetah matmul and conv2d, cipher*plain only"]
    log("[C20] %d events, %d rejected; %d layout events against Cheetah.tla, %d against Conv2d.tla" % (len(raw), len(bad), nlay, ncl))


REGISTRY.update({"C20": (check_c20, "model_checking")})


# --------------------------------------------------------------------------------------------------
# C10 RNS tools
# --------------------------------------------------------------------------------------------------
def check_c10(rep):
    wd = workdir("C10")
    raw = hcv(["c10", rep.tier, str(rep.seed)], timeout=1500).splitlines()
    # second pass: decryption helpers on phases built here from chosen messages and noise
    rng = random.Random(rep.seed)
    reqs = []
    extra_facts = []
    for l in raw:
        o = json.loads(l)
        for f in o["facts"]:
            if f["op"] != "rns_dec_request":
                continue
            q = [int(v) for v in f["q"]]
            Q = 1
            for m in q:
                Q *= m
            t, n = int(f["t"]), int(f["n"])
            if Q < 64 * t:
                continue
            for kind in ("scaleround", "modt"):
                vals, phase = [], [0] * (len(q) * n)
                for j in range(n):
                    if kind == "scaleround":
                        m = int(f["m"][j])
                        bound = Q // (4 * t) - 1          # |t*e_x| stays within Q/4
                        ex = rng.choice([0, bound, -bound, rng.randrange(-bound, bound + 1)])
                        base = (Q * m + t // 2) // t
                        if base + ex < 0 or base + ex >= Q:      # keep the phase inside [0, Q) without wrapping
                            ex = -ex
                        X = base + ex
                        vals.append({"X": X, "m": m, "e": t * X - Q * m})
                    else:
                        c = rng.choice([0, Q // 4, -(Q // 4), rng.randrange(-(Q // 4), Q // 4 + 1)])
                        X = c % Q
                        vals.append({"X": X, "c": c})
                    for i, m_ in enumerate(q):
                        phase[i * n + j] = X % m_
                reqs.append({"id": len(reqs), "kind": kind, "q": q, "t": t, "n": n, "phase": phase, "vals": vals})
    rp = os.path.join(wd, "dec_requests.ndjson")
    open(rp, "w").write("\n".join(json.dumps({k: r[k] for k in ("id", "kind", "q", "t", "n", "phase")}) for r in reqs) + "\n")
    outs = [json.loads(l) for l in hcv(["c10", "dec", rp], timeout=900).splitlines()] if reqs else []
    dec_lines = []
    for r, o in zip(reqs, outs):
        facts = []
        for j, v in enumerate(r["vals"]):
            if o["panic"]:
                facts.append({"op": "flagpanic", "q": r["q"], "what": "decrypt_" + r["kind"]})
            elif r["kind"] == "scaleround":
                facts.append({"op": "rns_scaleround", "q": r["q"], "t": r["t"], "X": v["X"], "m": v["m"], "e": v["e"], "out": o["out"][j]})
            else:
                facts.append({"op": "rns_modt", "q": r["q"], "t": r["t"], "X": v["X"], "c": v["c"], "out": o["out"][j]})
        dec_lines.append(json.dumps({"ev": "rns", "facts": facts}))
    lines, index = arith.convert_lines(raw + dec_lines)
    bad, st = arith.validate(lines, wd, timeout=3000, chunks=8)
    rep.cov["states"] = st["distinct"]
    rep.cov["transitions"] = st["generated"]
    rep.cov["traces_validated_against_impl"] = len(lines)
    rep.cov["evaluations"] = len(index)
    ops = {}
    for v in index.values():
        k = v.get("op", "?") + ("/" + v["variant"] if v.get("variant") else "")
        ops[k] = ops.get(k, 0) + 1
    rep.cov["per_routine"] = ops
    rep.cov["distinct_nontrivial"] = len(index)
    rep.cov["rule"] = ("events = one per coefficient and routine: CRT compose/decompose exhaustively for the bases {3,5}, {5,7,11}, {13,7}, {2,3,5,7} (single and array forms) and on boundary/random "
                       "integers for bases of 1..4 (quick) / 1..8 (thorough) primes of 18..60 bits in mixed order; fast base conversion, m~ conversion, Montgomery reduction, fast floor, "
                       "Shenoy-Kumaresan, divide-and-round by the last prime (coefficient and NTT form), the BGV mod-t variant (both forms), scale-and-round and mod-t decryption with noise up "
                       "to a quarter of the modulus; TLC evaluates the integer post-condition of Rns.tla with BigNat, quotients and bounded error terms being untrusted hints")
    for b in bad:
        d = index.get(tuple(b), {"op": "?"})
        rep.violation({"op": d.get("op"), "variant": d.get("variant"), "nprimes": len(d.get("q", []))}, {"event": d})
    ks = sorted(index.keys())
    rep.samples += [index[ks[0]], index[ks[len(ks) // 2]], index[ks[-1]]]
    rep.assumptions += ["inputs are built from integers chosen by the harness / bin/check; residues are computed independently of the library (u128 folding, python integers)"]
    log("[C10] %d events, %d rejected" % (len(index), len(bad)))


REGISTRY.update({"C10": (check_c10, "model_checking")})


# --------------------------------------------------------------------------------------------------
# C12 CKKS encoding
# --------------------------------------------------------------------------------------------------
def _f64(bits):
    import struct
    return struct.unpack('<d', struct.pack('<Q', int(bits)))[0]


def _dyadic(x):
    """double -> (neg, mant, exp) with x = (-1)^neg * mant * 2^exp exactly"""
    import math
    if x == 0:
        return {"neg": False, "mant": [], "exp": 0, "frac": (0, 0)}
    m, e = math.frexp(abs(x))
    mant = int(m * (1 << 53))
    exp = e - 53
    while mant % 2 == 0:
        mant //= 2
        exp += 1
    return {"neg": x < 0, "mant": arith.limbs(mant), "exp": exp, "frac": (mant, exp)}


def _scaled_round(v, s):
    """exact round-half-away of v*s for doubles v, s -> (neg, magnitude, shift hint)"""
    mv, ev = v["frac"]
    ms, es = s["frac"]
    P = mv * ms
    e = ev + es
    if e >= 0:
        return P << e, [[], []]
    D = 1 << (-e)
    quo, rem = P // D, P % D
    val = quo + (1 if 2 * rem >= D else 0)
    return val, [arith.limbs(quo), arith.limbs(rem)]


def ckks_event(raw):
    import math
    if raw["ev"] == "ckks_mul":
        return {"ev": "ckks_mul", "n": raw["n"], "exp": raw["exp"], "got": [[max(-(1 << 30), min(1 << 30, int(x))) for x in z] for z in raw["got"]], "tol": raw["tol"]}
    q = [int(m) for m in raw["q"]]
    Q = 1
    for m in q:
        Q *= m
    n = raw["n"]
    scale = _f64(raw["scale_bits"])
    inputs = [_f64(b) for b in raw["inputs"]]
    ints = raw["ints"]
    entry, structure = raw["entry"], raw["structure"]
    ev = {"ev": "ckks", "entry": entry, "structure": structure, "n": n, "q": [arith.limbs(m) for m in q], "Q": arith.limbs(Q), "refused": raw["refused"],
          "fft": entry in ("vector", "c64_single"), "coef": [], "dec_dev": 0, "dec_tol": 0, "scale_kept": True, "level_ok": True,
          "ref": [], "must_refuse": False, "may_refuse": False}
    if entry == "i64_single":
        scale = 1.0
        vals = [float(ints[0])]
        vd = [{"neg": ints[0] < 0, "mant": arith.limbs(abs(ints[0])), "exp": 0, "frac": (abs(ints[0]), 0)}]
    else:
        vals = inputs
        vd = [_dyadic(v) for v in inputs]
    bad_scale = not (scale > 0 and math.isfinite(scale))
    sd = _dyadic(scale if not bad_scale else 1.0)
    ev["scale"] = {k: sd[k] for k in ("mant", "exp")}
    ev["inputs"] = [{k: d[k] for k in ("neg", "mant", "exp")} for d in vd]
    # magnitude of the largest scaled coefficient (exact for the coefficient-wise entry points, a safe over-estimate otherwise)
    mags = []
    hints = []
    for d in vd:
        val, sh = _scaled_round(d, sd) if not bad_scale else (0, [[], []])
        mags.append(val)
        hints.append(sh)
    if structure == "random":
        biggest = int(abs(vals[0]) * 2 * (scale if not bad_scale else 0)) + 1      # |coefficient| <= max|slot| * sqrt(2)... generous
    elif structure in ("csingle", "n2"):
        biggest = max(mags) * 2 + 1
    else:
        biggest = max(mags) if mags else 0
    from fractions import Fraction
    if bad_scale or Fraction(scale) >= Q or biggest >= Q and structure not in ("random", "csingle"):
        ev["must_refuse"] = True
    elif Fraction(scale) * 16 >= Q or biggest * 32 >= Q:
        ev["may_refuse"] = True
    if raw["refused"] or ev["must_refuse"]:
        return ev
    # compose the residues of every coefficient into one centred integer (hint)
    xs = []
    for r in raw["res"]:
        x = 0
        for ri, m in zip(r, q):
            pm = Q // m
            x += int(ri) * pow(pm % m, -1, m) % m * pm
        x %= Q
        if x > Q // 2:
            x -= Q
        xs.append(x)
    ref = max(abs(x) for x in xs) if xs else 0
    ev["ref"] = arith.limbs(ref)
    def coef(j, kind, inp=0):
        x = xs[j]
        r = [int(v) for v in raw["res"][j]]
        neg, mag = x < 0, abs(x)
        h = [arith.limbs((mag + ri) // m) if (neg and mag) else arith.limbs(mag // m) for ri, m in zip(r, q)]
        return {"neg": neg, "mag": arith.limbs(mag), "r": [arith.limbs(v) for v in r], "h": h, "kind": kind, "inp": inp, "sh": hints[inp - 1] if inp else [[], []]}
    for j in range(n):
        if entry in ("i64_single", "f64_single"):
            ev["coef"].append(coef(j, "scaled", 1) if j == 0 else coef(j, "zero"))
        elif entry == "poly":
            ev["coef"].append(coef(j, "scaled", j + 1) if j < len(inputs) else coef(j, "zero"))
        elif structure == "const":
            ev["coef"].append(coef(j, "scaled", 1) if j == 0 else coef(j, "small"))
        elif structure == "alt":
            ev["coef"].append(coef(j, "scaled", 1) if j == n // 2 else coef(j, "small"))
        elif structure == "n2":
            ev["coef"].append(coef(j, "scaled", j + 1))
        else:
            ev["coef"].append(coef(j, "any"))
    ev["dec_dev"] = min(int(raw.get("dec_dev", 1 << 60)), 1 << 30)
    vmax = max([abs(v) for v in vals] + [1.0]) * (2 if structure in ("random", "csingle", "n2") else 1)
    tol = 1048576.0 * (vmax * 2.0 ** -36 + 4.0 * n / scale) + 2
    ev["dec_tol"] = min(int(tol), 1 << 30)
    ev["scale_kept"] = bool(raw.get("scale_kept"))
    ev["level_ok"] = bool(raw.get("level_ok")) and bool(raw.get("valid"))
    return ev


def check_c12(rep):
    wd = workdir("C12")
    raw = [json.loads(l) for l in hcv(["c12", rep.tier, str(rep.seed)], timeout=1500).splitlines()]
    lines = [json.dumps(ckks_event(r)) for r in raw]
    bad, st = arith.validate(lines, wd, module="Trace_Ckks", timeout=3000, chunks=8)
    rep.cov["states"] = st["distinct"]
    rep.cov["transitions"] = st["generated"]
    rep.cov["traces_validated_against_impl"] = len(lines)
    rep.cov["evaluations"] = len(lines)
    enc = [r for r in raw if r["ev"] == "ckks"]
    rep.cov["distinct_nontrivial"] = len({json.dumps([r["entry"], r["structure"], r["n"], r["q"], r["scale_bits"], r["inputs"], r["ints"]]) for r in enc})
    rep.cov["refused"] = sum(1 for r in enc if r["refused"])
    rep.cov["per_entry"] = {k: sum(1 for r in enc if r["entry"] == k) for k in sorted({r["entry"] for r in enc})}
    rep.cov["embedding_multiplicative_degrees"] = sorted({r["n"] for r in raw if r["ev"] == "ckks_mul"})
    rep.cov["rule"] = ("events = one per (parameter set, level, entry point, input structure, scale): five entry points x scales 2^0..2^(log q + 3) incl. 0 and negative, crossing the 64- and 128-bit paths, "
                       "x magnitudes 0..1e18 with both signs x chains of 3..5 (quick) / 3..19 (thorough) primes at every level; TLC checks that all RNS components hold the residues of one small integer "
                       "per coefficient, that it is the rounded scaled input for the coefficient-wise entry points and the monomial-preimage vectors (N=2: exact), zero elsewhere, decode deviation within "
                       "the allowance, scale/level recorded, and refusal of oversized magnitudes and invalid scales; for degrees 4..256 (thorough 2..2048) the embedding is multiplicative: "
                       "the negacyclic product of two encodings (formed by the harness) decodes to the slot-wise product of Gaussian-integer vectors")
    for b in bad:
        r = raw[b[0] - 1]
        if r["ev"] == "ckks_mul":
            rep.violation({"entry": "embedding", "structure": "multiplicative", "n": r["n"]}, {"event": r})
            continue
        import math
        sc = _f64(r["scale_bits"])
        sig = {"entry": r["entry"], "structure": r["structure"], "refused": r["refused"],
               "scale_log2": int(math.log2(sc)) if sc > 0 and math.isfinite(sc) else None,
               "negative": bool((r["ints"] and r["ints"][0] < 0) or (r["inputs"] and _f64(r["inputs"][0]) < 0))}
        rep.violation(sig, {"event": {k: v for k, v in r.items() if k != "res"}})
    rep.samples += [{k: v for k, v in enc[i].items() if k != "res"} for i in (0, len(enc) // 2, len(enc) - 1)]
    rep.assumptions += ["the double-precision FFT is not modelled: vector inputs are checked exactly only where the preimage is a monomial, otherwise through component consistency, decode(encode(v)) = v and multiplicativity of the embedding",
                        "decode is the library's own (its deviation allowance is max|v| 2^-36 + 4N/scale)", "the composed coefficient integers are hints computed in python and verified residue by residue by TLC"]
    log("[C12] %d events (%d refused), %d rejected" % (len(raw), rep.cov["refused"], len(bad)))


REGISTRY.update({"C12": (check_c12, "model_checking")})


# --------------------------------------------------------------------------------------------------
# C07 noise budget
# --------------------------------------------------------------------------------------------------
def budget_event(raw):
    q = [int(m) for m in raw["q"]]
    Q = 1
    for m in q:
        Q *= m
    t = int(raw["t"])
    L = arith.limbs
    ev = {"ev": "budget", "scheme": raw["scheme"], "n": raw["n"], "t": L(t), "tbits": t.bit_length(), "q": [L(m) for m in q], "Q": L(Q), "reported": int(raw["reported"]),
          "rule": raw["rule"], "operands": [int(x) for x in raw["operands"]], "dec": [L(int(v)) for v in raw["dec"]], "exp": [L(int(v)) for v in raw["exp"]], "coef": []}
    below = True
    for r in raw["phase"]:
        x = 0
        for ri, m in zip(r, q):
            pm = Q // m
            x += int(ri) * pow(pm % m, -1, m) % m * pm
        x %= Q
        y = t * x if raw["scheme"] == "bfv" else x
        wp = y % Q
        kq = y // Q
        if 2 * wp > Q:
            wneg, wmag = True, Q - wp
        else:
            wneg, wmag = False, wp
        co = {"x": L(x), "r": [L(int(v)) for v in r], "h": [L(x // m) for m in q], "kq": L(kq), "wneg": wneg, "wmag": L(wmag), "mag": L(wmag), "adj": 0, "tneg": False, "tmag": []}
        if raw["scheme"] == "bfv":
            j = len(ev["coef"])
            D = t * x - Q * int(raw["exp"][j])
            adj = 0
            if 2 * D > t * Q:
                adj = -1
            elif 2 * D < -t * Q:
                adj = 1
            W = D + adj * t * Q
            co.update({"adj": adj, "tneg": W < 0, "tmag": L(abs(W))})
            if 2 * abs(W) >= Q:
                below = False
        ev["coef"].append(co)
    ev["below_threshold"] = below
    return ev


def check_c07(rep):
    quick = rep.tier == "quick"
    wd = workdir("C07")
    psets = ["bfv_8_17_50,50,50,50", "bgv_8_17_50,50,50,50", "bfv_4_17_30,30", "bgv_4_17_40,30,40", "bfv_8_12289_40,40,40",
             "bfv_8_1125899906842817_60,60,60", "bfv_4_1099511627777_50,50,50", "bgv_8_1099511627777_50,50,50"]      # plain moduli of 51 and 41 bits
    if not quick:
        psets += ["bfv_16_97_55,55,55,55,55", "bgv_16_97_60,60,60,60", "bfv_8_17_60,60,60,60,60,60,60", "bgv_8_257_25,30,35,40,45", "bfv_4_5_20,20"]
    raw = []
    for ps in psets:
        raw += [json.loads(l) for l in hcv(["c07", ps, str(rep.seed), rep.tier], timeout=900).splitlines()]
    lines = [json.dumps(budget_event(r)) for r in raw]
    bad, st = arith.validate(lines, wd, module="Trace_Budget", timeout=3000, chunks=8)
    rep.cov["states"] = st["distinct"]
    rep.cov["transitions"] = st["generated"]
    rep.cov["traces_validated_against_impl"] = len(lines)
    rep.cov["evaluations"] = len(lines)
    rep.cov["distinct_nontrivial"] = len({json.dumps([r["what"], r["scheme"], r["n"], r["q"], r["size"], r["lvl"], r["reported"], r["operands"]]) for r in raw})
    rep.cov["zero_budget_events"] = sum(1 for r in raw if r["reported"] == 0)
    rep.cov["per_kind"] = {k: sum(1 for r in raw if r["what"] == k) for k in sorted({r["what"] for r in raw})}
    rep.cov["rule"] = ("events = ciphertexts produced by small programs (fresh pk/sk/seeded, zero at every level, negate, add_many and subtraction chains of 2..5 (2..8) operands, mixed-size add/sub, "
                       "multiplication chains with relinearization and mod switch down to zero budget) for BFV/BGV with N = 4..16 and 1..7 primes; the phase is computed by the harness with naive negacyclic "
                       "products in u128; TLC certifies the CRT of every coefficient, recomputes norm and budget with BigNat and compares with the reported value, checks the fresh / negate / k-ary rules and "
                       "that below the threshold the decrypted plaintext is the expected one")
    for b in bad:
        r = raw[b[0] - 1]
        rep.violation({"what": r["what"], "scheme": r["scheme"], "rule": r["rule"]}, {"event": {k: v for k, v in r.items() if k != "phase"}})
    rep.samples += [{k: v for k, v in raw[i].items() if k != "phase"} for i in (0, len(raw) // 2, len(raw) - 1)]
    rep.assumptions += ["the secret key is brought to coefficient form with the library's inverse NTT (covered by C09); everything else in the phase computation is independent of the library",
                        "fresh bound: |w| <= 2 t (21 (2N+1) + 2), i.e. the deterministic sample bounds plus the rounding of the internal switch from the key level"]
    log("[C07] %d budget events (%d at zero budget), %d rejected" % (len(raw), rep.cov["zero_budget_events"], len(bad)))


REGISTRY.update({"C07": (check_c07, "model_checking")})
