#!/usr/bin/env python3
"""Prints the markdown table of seeded changes (DESIGN.md section 8) from seeded/*/meta.json."""
import json, os, re, sys
ROOT = os.path.dirname(os.path.dirname(os.path.abspath(__file__)))
rows = ["| id | change (file, function: what) | needs | caught by (quick tier) |", "|---|---|---|---|"]
for d in sorted(os.listdir(os.path.join(ROOT, "seeded"))):
    mp = os.path.join(ROOT, "seeded", d, "meta.json")
    if not os.path.exists(mp):
        continue
    m = json.load(open(mp))
    s = re.sub(r"\s+", " ", m["summary"]).replace("|", "/")
    s = s[:230] + ("..." if len(s) > 230 else "")
    n = re.sub(r"\s+", " ", m.get("needs", "")).replace("|", "/")
    n = n[:150] + ("..." if len(n) > 150 else "")
    cb = []
    for k, v in sorted(m.get("caught_by", {}).items()):
        cb.append("%s: %s" % (k, "caught (%d violation lines)" % v["violation_lines"] if v["exit"] == 1 else ("MISSED" if v["exit"] == 0 else "tool error")))
    rows.append("| %s | %s | %s | %s |" % (d, s, n, "; ".join(cb) or "not run"))
print("\n".join(rows))
