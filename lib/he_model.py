"""Instances of spec/HE.tla: generate the MC module from the real parameter set, run TLC, turn its
state graph into replayable behaviours (one per transition), replay them against the library."""
import json, os, math, random
from common import *

ALL_ACTIONS = ["Encode", "Encrypt", "EncryptZero", "Expand", "Decrypt", "Negate", "Add", "Sub", "Multiply", "Square",
               "Relin", "AddPlain", "SubPlain", "MulPlain", "ToNtt", "FromNtt", "PlainToNtt", "ModSwitchNext",
               "ModSwitchTo", "RescaleNext", "RescaleTo", "ModSwitchPlainNext", "ModSwitchPlainTo", "Galois",
               "Rotate", "Conj", "Corrupt", "EncryptOther", "KeySwitch", "Reload"]   # (AddMany / MultiplyMany only in dedicated instances: 30 operand lists each)


def tla_seq(xs):
    return "<<" + ", ".join(xs) + ">>"


def tla_val(v):
    if isinstance(v, bool):
        return "TRUE" if v else "FALSE"
    if isinstance(v, int):
        return str(v)
    if isinstance(v, str):
        return '"%s"' % v
    if isinstance(v, (list, tuple)):
        return tla_seq([tla_val(x) for x in v])
    raise ValueError(v)


def tla_set(xs):
    return "{" + ", ".join(tla_val(x) for x in xs) + "}"


def pset_info(pset):
    return json.loads(hcv(["info", pset]))


def level_constants(info):
    """Exact-integer constants of the chain, computed from the primes the library really uses."""
    primes = [int(p) for p in info["primes"]]
    t = info["t"]
    n = info["n"]
    if info.get("special_enc") or len(primes) == 1:
        data = primes            # no special prime: the first level is the key level, key switching is unavailable
        special = max(primes)
    else:
        data = primes[:-1]       # the last prime is the special prime
        special = primes[-1]
    nl = info.get("levels", len(data)) or len(data)
    off = len(data) - nl         # the chain may stop early (e.g. when the plain modulus exceeds the remaining modulus)
    qlow, qhigh, pbits, qinvt = [], [], [], []
    for l in range(nl):
        Q = 1
        for p in data[:l + 1 + off]:
            Q *= p
        qhigh.append(Q.bit_length())
        qlow.append(Q.bit_length() - 1)
        pbits.append(data[l + off].bit_length())
        qinvt.append(pow(data[l + off] % t, -1, t) if t > 1 and math.gcd(data[l + off], t) == 1 else 1)
    k = nl
    ks = k * n * 21 * ((max(data) + special - 1) // special) + (1 + n) + 1
    ksbits = ks.bit_length() + 2
    return dict(NL=nl, QLow=qlow, QHigh=qhigh, PBits=pbits, QInvT=qinvt, KsBits=ksbits, PrimeOffset=off)


def default_galois_elts(n):
    m = 2 * n
    elts = {m - 1}
    pos, neg = 3, pow(3, -1, m)
    for _ in range(int(math.log2(n)) - 1):
        elts.add(pos)
        elts.add(neg)
        pos = pos * pos % m
        neg = neg * neg % m
    return sorted(elts)


def write_instance(wd, name, info, *, actions, ct_slots, pt_slots, max_steps, max_size, msgs, scales=(30,),
                   steps=None, elts=None, keyset="default", view_values=False, tag_msgs=False, tag_alias=False, invariants=True, emit=True, extra_defs=""):
    c = level_constants(info)
    n, t = info["n"], max(info["t"], 2)
    scheme = info["scheme"]
    if steps is None:
        steps = [s for s in range(-(n // 2 - 1), n // 2) if s != 0]
    if elts is None:
        elts = list(range(1, 2 * n, 2))
    keys = default_galois_elts(n) if keyset == "default" else list(range(1, 2 * n, 2))
    mc = []
    mc.append("---- MODULE %s ----" % name)
    mc.append("EXTENDS HE, Json")
    mc.append("MC_QLow == %s" % tla_val(c["QLow"]))
    mc.append("MC_QHigh == %s" % tla_val(c["QHigh"]))
    mc.append("MC_PBits == %s" % tla_val(c["PBits"]))
    mc.append("MC_QInvT == %s" % tla_val(c["QInvT"]))
    mc.append("MC_Msgs == %s" % tla_val(msgs))
    mc.append("MC_HasKeyFor(g) == g \\in %s" % tla_set(keys))
    mc.append("MC_CtSlots == %s" % tla_set(ct_slots))
    mc.append("MC_PtSlots == %s" % tla_set(pt_slots))
    mc.append("MC_Scales == %s" % tla_set(list(scales)))
    mc.append("MC_Steps == %s" % tla_set(steps))
    mc.append("MC_Elts == %s" % tla_set(elts))
    mc.append("MCNext == " + " \\/ ".join(actions))
    mc.append("MCSpec == Init /\\ [][MCNext]_allvars")
    mc.append("KeyOf(pl, ns) == [p |-> [s \\in DOMAIN pl |-> TypeOf(pl[s])], n |-> ns]")
    if view_values:
        mc.append("MCView == <<pool, nsteps>>")
    else:
        mc.append("MCView == KeyOf(pool, nsteps)")
    mc.append('EmitState == PrintT(<<"S", ToJson([key |-> KeyOf(pool, nsteps), hist |-> hist])>>)')
    mc.append('EmitStep == PrintT(<<"T", ToJson([key |-> KeyOf(pool, nsteps), step |-> hist\'[Len(hist\')]])>>)')
    # correction factors are units modulo t: for a composite plain modulus the balancing is stated on the units only
    mc.append("BalanceOk == BalanceOkOn(%s)" % tla_set([x for x in range(1, min(t - 1, 60) + 1) if math.gcd(x, t) == 1]))
    mc.append(extra_defs)
    mc.append("====")
    open(os.path.join(wd, name + ".tla"), "w").write("\n".join(mc) + "\n")
    cfg = []
    cfg.append("SPECIFICATION MCSpec")
    cfg.append("CONSTANTS")
    cfg.append('  Scheme = "%s"' % scheme)
    cfg.append("  N = %d" % n)
    cfg.append("  T = %d" % t)
    cfg.append("  NL = %d" % c["NL"])
    cfg.append("  MaxSteps = %d" % max_steps)
    cfg.append("  MaxSize = %d" % max_size)
    cfg.append("  KsBits = %d" % c["KsBits"])
    cfg.append("  SeedWords = 9")
    cfg.append("  PrimeOffset = %d" % c["PrimeOffset"])
    cfg.append("  TagMsgs = %s" % ("TRUE" if tag_msgs else "FALSE"))
    cfg.append("  TagAlias = %s" % ("TRUE" if tag_alias else "FALSE"))
    for nm in ["QLow", "QHigh", "PBits", "QInvT", "Msgs", "HasKeyFor", "CtSlots", "PtSlots", "Scales", "Steps", "Elts"]:
        cfg.append("  %s <- MC_%s" % (nm, nm))
    cfg.append("VIEW MCView")
    if invariants:
        cfg.append("INVARIANTS Valid Closed" + (" BalanceOk" if scheme == "bgv" and max_steps > 0 else ""))
        cfg.append("PROPERTIES LevelRule SizeRule RefusalPure")
    if emit:
        cfg.append("INVARIANT EmitState")
        cfg.append("ACTION_CONSTRAINT EmitStep")
    cfg.append("CHECK_DEADLOCK FALSE")
    p = os.path.join(wd, name + ".cfg")
    open(p, "w").write("\n".join(cfg) + "\n")
    return p


def typekey_of_step(step, prekey):
    """(action, operand typestates) - what decides the verdict; used to deduplicate the replay set."""
    a = step["act"]
    pool = prekey["p"]
    ops = []
    for f in ("a", "b", "p"):
        if a[f]:
            ops.append(tuple(map(str, pool[a[f]])))
    for o in a.get("ops", []):
        ops.append(tuple(map(str, pool[o])))
    return json.dumps([a["op"], a["lvl"], a["mode"], a["m"], a["e"], a["g"], a["s"], a["f"], ops, a["a"] == a["b"], step["dst"] == a["a"], len(set(a.get("ops", [])))])


class Graph:
    """Collects the S/T lines of one TLC run."""

    def __init__(self):
        self.paths = {}     # key -> hist
        self.trans = []     # (key, step)
        self.verdicts = {"ok": 0, "refuse": 0, "any": 0}
        self.ops = {}

    def on_line(self, tag, obj):
        k = json.dumps(obj["key"], sort_keys=True)
        if tag == "S":
            if k not in self.paths:
                self.paths[k] = obj["hist"]
        elif tag == "T":
            self.trans.append((k, obj["key"], obj["step"]))
            self.verdicts[obj["step"]["v"]] += 1
            op = obj["step"]["act"]["op"]
            self.ops.setdefault(op, {"ok": 0, "refuse": 0, "any": 0})[obj["step"]["v"]] += 1

    def behaviours(self, rng, per_class=1, extra_sample=0, glk="default"):
        """One behaviour per distinct (action, operand typestates) class (first `per_class` occurrences in BFS
        order = shortest programs), plus a random sample of the remaining transitions."""
        seen = {}
        rest = []
        out = []
        for (k, key, step) in self.trans:
            if step["v"] == "any":
                continue
            if k not in self.paths:
                continue   # pre-state not emitted (cannot happen for explored states)
            tk = typekey_of_step(step, key)
            c = seen.get(tk, 0)
            if c < per_class:
                seen[tk] = c + 1
                out.append((k, step))
            else:
                rest.append((k, step))
        if extra_sample and rest:
            out += rng.sample(rest, min(extra_sample, len(rest)))
        behs = []
        for i, (k, step) in enumerate(out):
            hist = self.paths[k]
            behs.append({"id": i, "glk": glk, "steps": hist + [step], "check_from": len(hist)})
        return behs, len(seen)


def replay_behaviours(pset, msgs, behs, wd, tag="beh", deadline=20.0, nproc=None):
    cfgp = os.path.join(wd, tag + "_cfg.json")
    json.dump({"pset": pset, "msgs": msgs}, open(cfgp, "w"))
    import common
    if common.SELFTEST:
        behs = selftest_corrupt_expectation(behs, tag)
    return run_workers_parallel(["he-replay", cfgp], behs, wd, tag, nproc=nproc, deadline=deadline)


def selftest_corrupt_expectation(behs, tag):
    """selftest: changes ONE expected field of the last step of one behaviour (seeded choice); the replay must disagree"""
    import common, copy
    rng = random.Random("%s/%s" % (common.SELFTEST, tag))
    cand = [i for i, b in enumerate(behs) if b["steps"] and b["steps"][-1]["v"] == "ok" and b["steps"][-1]["out"]["kind"] == "ct"]
    if not cand:
        return behs
    i = rng.choice(cand)
    b = copy.deepcopy(behs[i])
    out = b["steps"][-1]["out"]
    kinds = ["lvl", "ntt", "size"]
    if out.get("cmp") and out.get("val"):
        kinds.append("val")
    k = rng.choice(kinds)
    old = copy.deepcopy(out.get(k))
    if k == "lvl":
        out["lvl"] = out["lvl"] - 1 if out["lvl"] > 0 else 1
    elif k == "ntt":
        out["ntt"] = not out["ntt"]
    elif k == "size":
        out["size"] = out["size"] + 1
    else:
        v = out["val"]
        j = rng.randrange(len(v))
        if isinstance(v[j], list):
            v[j][0] += 1 << 20          # CKKS slots: far outside any error bound
        else:
            v[j] = v[j] + 1
    common.SELFTEST_LOG.append({"replay": tag, "behaviour": i, "op": b["steps"][-1]["act"]["op"], "field": k, "old": old})
    log("SELFTEST-CORRUPTED " + json.dumps(common.SELFTEST_LOG[-1]))
    return behs[:i] + [b] + behs[i + 1:]


def signature(beh, res):
    """Compact description of a violation used for known-finding matching and de-duplication."""
    i = res.get("step", len(beh["steps"]) - 1)
    st = beh["steps"][i]
    a = st["act"]
    pool = {}
    for s in beh["steps"][:i]:
        if s["v"] == "ok":
            pool[s["dst"]] = s["out"]
    def ts(name):
        h = pool.get(name)
        if not h:
            return None
        return {"size": h["size"], "lvl": h["lvl"], "ntt": h["ntt"], "seeded": h["seeded"], "valid": h["valid"]}
    sig = {"op": a["op"], "status": res["status"], "kind": res.get("kind", res["status"]), "expected": st["v"]}
    if a["a"]:
        sig["a"] = ts(a["a"])
    if a["b"]:
        sig["b"] = ts(a["b"])
    if a["op"] in ("mod_switch_to", "rescale_to", "encrypt_zero", "plain_to_ntt", "mod_switch_plain_to"):
        sig["target_lvl"] = a["lvl"]
    return sig
