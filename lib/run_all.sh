#!/bin/bash
# run every registered quick (or $1) check and print exit status and time
tier=${1:-quick}
cd "$(dirname "$0")/.."
for c in $(python3 -c "import json; print(' '.join(x['property_id'] for x in json.load(open('MANIFEST.json'))['checks']))"); do
  s=$(date +%s)
  out=$(bin/check $c $tier 2>/dev/null)
  rc=$?
  e=$(date +%s)
  echo "$c $tier exit=$rc $((e-s))s $(echo "$out" | grep -c '^VIOLATION') violations $(echo "$out" | grep -c '^KNOWN-FINDING') known"
done
