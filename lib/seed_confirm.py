#!/usr/bin/env python3
"""Confirm a sub-agent's seeded change in its scratch worktree: compiles, existing tests pass, demo fails with / passes without.
usage: seed_confirm.py <worktree> <mutant-subdir> <seeded-id>"""
import json, os, shutil, subprocess, sys
wt, sub, sid = sys.argv[1], sys.argv[2], sys.argv[3]
src = os.path.join(wt, "_mutants", sub)
dst = os.path.join("/verif/seeded", sid)
env = dict(os.environ, CARGO_NET_OFFLINE="true")
def run(cmd, **kw):
    r = subprocess.run(cmd, cwd=wt, env=env, stdout=subprocess.PIPE, stderr=subprocess.STDOUT, text=True, **kw)
    return r.returncode, r.stdout
ran = []
run(["git", "checkout", "--", "."])
rc, out = run(["git", "apply", os.path.join(src, "patch.diff")])
ran.append({"cmd": "git apply patch.diff", "rc": rc})
assert rc == 0, out
rc, out = run(["cargo", "test", "--offline", "--lib"])
tests_pass = rc == 0 and "78 passed" in out
ran.append({"cmd": "cargo test --offline --lib (with change)", "rc": rc, "summary": [l for l in out.splitlines() if l.startswith("test result")]})
os.makedirs(os.path.join(wt, "tests"), exist_ok=True)
shutil.copy(os.path.join(src, "demo.rs"), os.path.join(wt, "tests", "demo.rs"))
rc, out = run(["cargo", "test", "--offline", "--test", "demo"])
demo_fails = rc != 0
ran.append({"cmd": "cargo test --offline --test demo (with change)", "rc": rc, "summary": [l for l in out.splitlines() if l.startswith("test result") or "panicked" in l][:6]})
run(["git", "checkout", "--", "."])
rc, out = run(["cargo", "test", "--offline", "--test", "demo"])
demo_passes = rc == 0
ran.append({"cmd": "cargo test --offline --test demo (without change)", "rc": rc, "summary": [l for l in out.splitlines() if l.startswith("test result")]})
shutil.rmtree(os.path.join(wt, "tests"), ignore_errors=True)
ok = tests_pass and demo_fails and demo_passes
print(sid, "confirmed" if ok else "NOT CONFIRMED", tests_pass, demo_fails, demo_passes)
if ok:
    os.makedirs(dst, exist_ok=True)
    shutil.copy(os.path.join(src, "patch.diff"), dst)
    shutil.copy(os.path.join(src, "demo.rs"), dst)
    meta = json.load(open(os.path.join(src, "meta.json")))
    meta["confirmed_by_me"] = ran
    meta["caught_by"] = {}
    json.dump(meta, open(os.path.join(dst, "meta.json"), "w"), indent=1)
