"""Shared machinery of /verif/bin/check: building the harness, running TLC, running harness workers
under a per-item deadline, classifying violations against the known-findings file, writing evidence."""
import json, os, re, subprocess, sys, time, threading, queue, shutil, hashlib

ROOT = os.path.dirname(os.path.dirname(os.path.abspath(__file__)))
SPEC = os.path.join(ROOT, "spec")
HARNESS = os.path.join(ROOT, "harness")
HCV = os.path.join(HARNESS, "target", "release", "hcv")
WORK = os.path.join(ROOT, "work")
EVID = os.path.join(ROOT, "evidence")
REPLAYS = os.path.join(ROOT, "replays")
KNOWN = os.path.join(ROOT, "known_findings.json")
NCPU = os.cpu_count() or 4


class ToolError(Exception):
    pass


def log(*a):
    print(*a, file=sys.stderr, flush=True)


def workdir(name):
    d = os.path.join(WORK, name)
    shutil.rmtree(d, ignore_errors=True)
    os.makedirs(d, exist_ok=True)
    return d


_built = False


def build_harness():
    """Rebuild the harness (and with it /repo, a path dependency, from its current working tree)."""
    global _built
    if _built:
        return
    env = dict(os.environ, CARGO_NET_OFFLINE="true", RUST_BACKTRACE="0")
    lock = os.path.join(HARNESS, "Cargo.lock")
    if not os.path.exists(lock):
        shutil.copy("/repo/Cargo.lock", lock)
    t0 = time.time()
    r = subprocess.run(["cargo", "build", "--release", "--offline", "--quiet"], cwd=HARNESS, env=env,
                       stdout=subprocess.PIPE, stderr=subprocess.STDOUT, text=True)
    if r.returncode != 0:
        log(r.stdout[-4000:])
        raise ToolError("cargo build of the harness failed")
    log("[build] harness built in %.1fs" % (time.time() - t0))
    _built = True


# --------------------------------------------------------------------------------------------------
# selftest (DESIGN.md 4.4): VERIF_SELFTEST=<seed> corrupts ONE recorded value per harness run (resp. one expected
# value per replayed instance); the check must then report a violation.  Nothing of this is active otherwise.
# --------------------------------------------------------------------------------------------------
SELFTEST = os.environ.get("VERIF_SELFTEST")
SELFTEST_LOG = []
# operands (a recorded floating-point input may legitimately move by one unit within the specification's allowance) and bookkeeping
_SELFTEST_SKIP = {"inputs", "seed", "id", "idx"}
_RECORDERS = {"he-drive", "keys", "c07", "c08", "c09", "c10", "c11", "c12", "c13", "c16", "c17", "c19", "c20", "ser-layout"}


def _int_leaves(o, path, out):
    if isinstance(o, bool):
        return
    if isinstance(o, int):
        out.append(path)
    elif isinstance(o, list):
        for i, x in enumerate(o):
            _int_leaves(x, path + [i], out)
    elif isinstance(o, dict):
        for k in sorted(o):
            if k not in _SELFTEST_SKIP:
                _int_leaves(o[k], path + [k], out)


def selftest_corrupt_record(text, args):
    """adds 1 to one integer of one recorded event (seeded choice)"""
    import random
    lines = text.splitlines()
    rng = random.Random("%s/%s/%d" % (SELFTEST, " ".join(map(str, args[:2])), len(SELFTEST_LOG)))
    cand = [i for i, l in enumerate(lines) if l.startswith("{")]
    rng.shuffle(cand)
    for i in cand[:20]:
        try:
            o = json.loads(lines[i])
        except Exception:
            continue
        leaves = []
        _int_leaves(o, [], leaves)
        if not leaves:
            continue
        path = rng.choice(leaves)
        x = o
        for k in path[:-1]:
            x = x[k]
        old = x[path[-1]]
        x[path[-1]] = str(int(old) + 1) if isinstance(old, str) else old + 1
        lines[i] = json.dumps(o)
        SELFTEST_LOG.append({"recorder": " ".join(map(str, args[:2])), "line": i, "path": path, "old": old})
        log("SELFTEST-CORRUPTED " + json.dumps(SELFTEST_LOG[-1]))
        break
    return "\n".join(lines) + "\n"


def hcv(args, timeout=600, input=None, env=None):
    e = dict(os.environ, RUST_BACKTRACE="0")
    if env:
        e.update(env)
    r = subprocess.run([HCV] + list(args), stdout=subprocess.PIPE, stderr=subprocess.PIPE, text=True, timeout=timeout, input=input, env=e)
    if r.returncode != 0:
        raise ToolError("hcv %s failed (%d): %s" % (" ".join(args[:2]), r.returncode, r.stderr[-2000:]))
    if SELFTEST and args and args[0] in _RECORDERS:
        return selftest_corrupt_record(r.stdout, args)
    return r.stdout


# --------------------------------------------------------------------------------------------------
# TLC
# --------------------------------------------------------------------------------------------------
_STEP_RE = re.compile(r'^<<"([A-Z]+)", "(.*)">>$')


def tla_unescape(s):
    # TLC prints strings with backslash escapes for " and \
    return json.loads('"' + s + '"')


def run_tlc(module, cfg, wd, workers=8, timeout=1500, env=None, simulate=None, depth=None, extra=None,
            on_line=None, java_opts="-Xss512m", coverage=False, seed=None, heap="8g"):
    """Run TLC on spec/<module>.tla (copied into wd together with all other specs) with config file cfg (path).
    Returns dict(ok, generated, distinct, depth, violated, out, wall_s).  Lines printed by PrintT in the form
    <<"TAG", "json">> are passed to on_line(tag, obj)."""
    for f in os.listdir(SPEC):
        if f.endswith(".tla"):
            shutil.copy(os.path.join(SPEC, f), wd)
    e = dict(os.environ)
    tmpd = os.path.join(wd, "jtmp")          # TLC unpacks its standard modules into java.io.tmpdir on every run: keep that out of /tmp
    os.makedirs(tmpd, exist_ok=True)
    e["JAVA_TOOL_OPTIONS"] = java_opts + " -Xmx" + heap + " -Djava.io.tmpdir=" + tmpd
    if env:
        e.update(env)
    # -checkpoint 0: no checkpoints (the depth-first state queue used for trace validation cannot be checkpointed: a run that lasts
    # longer than the default interval of 30 minutes would end with an exception)
    cmd = ["tlc", "-workers", str(workers), "-config", cfg, "-metadir", os.path.join(wd, "states"), "-cleanup", "-noGenerateSpecTE", "-checkpoint", "0"]
    if coverage:
        cmd += ["-coverage", "1"]
    if simulate:
        cmd += ["-simulate", "num=%d" % simulate]
    if depth:
        cmd += ["-depth", str(depth)]
    if seed is not None:
        cmd += ["-seed", str(seed)]
    if extra:
        cmd += extra
    cmd.append(module + ".tla")
    t0 = time.time()
    p = subprocess.Popen(["timeout", str(timeout)] + cmd, cwd=wd, env=e, stdout=subprocess.PIPE, stderr=subprocess.STDOUT, text=True, bufsize=1 << 20)
    keep = []
    res = dict(ok=False, generated=0, distinct=0, depth=0, violated=None, error=None)
    for line in p.stdout:
        line = line.rstrip("\n")
        m = _STEP_RE.match(line)
        if m and on_line:
            try:
                on_line(m.group(1), json.loads(tla_unescape(m.group(2))))
            except Exception as ex:
                raise ToolError("cannot parse TLC output line: %s (%s)" % (line[:200], ex))
            continue
        if len(keep) < 4000:
            keep.append(line)
        m = re.match(r"^(\d+) states generated, (\d+) distinct states found", line)
        if m:
            res["generated"] = int(m.group(1))
            res["distinct"] = int(m.group(2))
        m = re.match(r"^The depth of the complete state graph search is (\d+)", line)
        if m:
            res["depth"] = int(m.group(1))
        m = re.match(r"^Error: Invariant (\S+) is violated", line)
        if m:
            res["violated"] = m.group(1)
        m = re.match(r"^Error: Action property (\S+) is violated", line)
        if m:
            res["violated"] = m.group(1)
        if line.startswith("Error:") and res["error"] is None:
            res["error"] = line
        if "Model checking completed. No error has been found." in line or "Finished in" in line:
            pass
    rc = p.wait()
    res["wall_s"] = time.time() - t0
    res["out"] = keep
    res["rc"] = rc
    if rc == 124:
        raise ToolError("TLC timed out after %ds on %s" % (timeout, module))
    res["ok"] = (rc == 0 and res["error"] is None)
    return res


def tlc_must_pass(res, what):
    if not res["ok"]:
        log("\n".join(res["out"][-60:]))
        raise ToolError("TLC run failed for %s: %s" % (what, res["error"] or ("exit %s" % res["rc"])))


# --------------------------------------------------------------------------------------------------
# Harness workers with a per-item deadline (non-termination is an observable outcome)
# --------------------------------------------------------------------------------------------------
def run_worker(cmd_prefix, items_path, n_items, deadline=20.0, env=None, max_hangs=3):
    """Runs `hcv <cmd_prefix...> <items_path> <skip>`; the worker prints {"start": i} before item i and a result
    line after it.  If no line arrives within `deadline` seconds after a start, the worker is killed, item i is
    reported as {"status":"hang"} and a new worker continues with item i+1.  Returns list of (index, result)."""
    results = []
    skip = 0
    hangs = 0
    e = dict(os.environ, RUST_BACKTRACE="0")
    if env:
        e.update(env)
    while skip < n_items:
        if hangs >= max_hangs:
            # a violation has been reported for each of them; do not spend the whole budget on further hangs
            log("[worker] %d items hung or killed the worker; the remaining %d items of this worker are not run" % (hangs, n_items - skip))
            break
        p = subprocess.Popen([HCV] + cmd_prefix + [items_path, str(skip)], stdout=subprocess.PIPE, stderr=subprocess.PIPE, text=True, env=e)
        q = queue.Queue()

        def reader(stream=p.stdout):
            for line in stream:
                q.put(line)
            q.put(None)

        th = threading.Thread(target=reader, daemon=True)
        th.start()
        current = None
        got_current = False
        finished = False
        # building the suite (key generation) happens before the first start line
        wait = max(deadline, 120.0)
        while True:
            try:
                line = q.get(timeout=wait)
            except queue.Empty:
                p.kill()
                p.wait()
                if current is None:
                    raise ToolError("harness worker produced no output within %.0fs" % wait)
                if not got_current:
                    results.append((current, {"status": "hang", "detail": "no return within %.0fs" % deadline}))
                hangs += 1
                skip = current + 1
                break
            if line is None:
                rc = p.wait()
                if not finished:
                    err = p.stderr.read()[-2000:]
                    if current is not None and rc != 0:
                        # the worker died inside an item (abort, stack overflow, ...) or left after reporting a blocked schedule: data, not a tool error
                        if not got_current:
                            results.append((current, {"status": "crash", "detail": "worker exited with %s: %s" % (rc, err[-300:])}))
                        hangs += 1
                        skip = current + 1
                        break
                    raise ToolError("harness worker exited unexpectedly (%s): %s" % (rc, err))
                skip = n_items
                break
            o = json.loads(line)
            if "start" in o:
                current = o["start"]
                got_current = False
                wait = deadline
            elif "done" in o:
                finished = True
            else:
                results.append((current, o))
                got_current = True
                wait = deadline
    return results


def run_workers_parallel(cmd_prefix, items, wd, tag, nproc=None, deadline=20.0, env=None):
    """Split items (list of JSON-able objects) over nproc workers. Returns list of (item, result)."""
    nproc = nproc or min(NCPU, 16)
    nproc = max(1, min(nproc, (len(items) + 199) // 200))
    chunks = [items[i::nproc] for i in range(nproc)]
    outs = [None] * nproc
    errs = []

    def work(k):
        path = os.path.join(wd, "%s_%d.ndjson" % (tag, k))
        with open(path, "w") as f:
            for it in chunks[k]:
                f.write(json.dumps(it) + "\n")
        try:
            outs[k] = run_worker(cmd_prefix, path, len(chunks[k]), deadline, env)
        except Exception as ex:
            errs.append(ex)

    ths = [threading.Thread(target=work, args=(k,)) for k in range(nproc)]
    for t in ths:
        t.start()
    for t in ths:
        t.join()
    if errs:
        raise errs[0]
    res = []
    for k in range(nproc):
        for (i, r) in outs[k]:
            res.append((chunks[k][i], r))
    return res


# --------------------------------------------------------------------------------------------------
# Violations, known findings, evidence
# --------------------------------------------------------------------------------------------------
def load_known():
    if not os.path.exists(KNOWN):
        return {"findings": [], "fixed": []}
    return json.load(open(KNOWN))


def match_known(prop, sig):
    """sig: dict describing the violation (entry point, input class...). A finding matches when every key of its
    'match' dict equals the signature's value (lists = membership)."""
    for f in load_known().get("findings", []):
        if f["property"] != prop:
            continue
        ok = True
        for k, v in f["match"].items():
            sv = sig.get(k)
            if isinstance(v, list):
                if sv not in v:
                    ok = False
            elif sv != v:
                ok = False
        if ok:
            return f
    return None


class Report:
    """Collects violations of one check run and produces the contractual output."""

    def __init__(self, prop, tier, seed, level):
        self.prop, self.tier, self.seed, self.level = prop, tier, seed, level
        self.t0 = time.time()
        self.violations = []   # (sig, replay_obj)
        self.known_hits = {}   # finding id -> count
        self.cov = {}
        self.assumptions = []
        self.samples = []

    def violation(self, sig, replay):
        f = match_known(self.prop, sig)
        if f is not None:
            self.known_hits.setdefault(f["id"], [f, 0])[1] += 1
            return
        self.violations.append((sig, replay))

    def finish(self):
        evid, replays = EVID, REPLAYS
        if os.environ.get("VERIF_REPLAY_RUN"):   # re-exploration on behalf of `--replay`: keep the real evidence untouched
            evid = os.path.join(WORK, "replay_run", "evidence")
            replays = os.path.join(WORK, "replay_run", "replays")
        if SELFTEST:      # a selftest run must not touch the evidence of the real check
            evid = os.path.join(WORK, "selftest", "evidence_%s" % SELFTEST)
            replays = os.path.join(WORK, "selftest", "replays_%s" % SELFTEST)
            self.cov["selftest_corruptions"] = SELFTEST_LOG
        os.makedirs(evid, exist_ok=True)
        rd = os.path.join(replays, self.prop)
        os.makedirs(rd, exist_ok=True)
        for f in os.listdir(rd):          # replay files of earlier runs of this tier are stale
            if f.startswith(self.tier + "_"):
                os.remove(os.path.join(rd, f))
        for fid, (f, n) in sorted(self.known_hits.items()):
            print("KNOWN-FINDING: property=%s %s (%d occurrence%s in this run)" % (self.prop, f["what"], n, "" if n == 1 else "s"))
        seen = set()
        nrep = 0
        for sig, replay in self.violations:
            key = json.dumps(sig, sort_keys=True)
            if key in seen:
                continue
            seen.add(key)
            if nrep >= 20:
                continue
            nrep += 1
            h = hashlib.sha1(key.encode()).hexdigest()[:10]
            path = os.path.join(rd, "%s_%s.json" % (self.tier, h))
            json.dump({"property": self.prop, "tier": self.tier, "seed": self.seed, "signature": sig, "replay": replay}, open(path, "w"), indent=1)
            print("VIOLATION property=%s replay=%s" % (self.prop, path))
            log("  " + key[:400])
        cov = dict(self.cov)
        cov.setdefault("samples", self.samples[:5] if self.samples else [{"note": "no sample recorded"}])
        ev = {
            "property_id": self.prop, "tier": self.tier, "seed": self.seed, "level": self.level,
            "coverage": cov, "assumptions": self.assumptions, "wall_s": round(time.time() - self.t0, 2),
            "violations": len(seen),
            "known_findings_hit": {fid: n for fid, (f, n) in self.known_hits.items()},
        }
        json.dump(ev, open(os.path.join(evid, self.prop + ".json"), "w"), indent=1)
        sys.stdout.flush()
        return 1 if seen else 0
