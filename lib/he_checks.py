"""Checks C01-C06: instances of HE.tla, model checked by TLC, every transition class replayed on the library."""
import random, time
from common import *
from he_model import *

BFV = "bfv_8_17_50,50,50,50"
BGV = "bgv_8_17_50,50,50,50"
CKKS = "ckks_8_0_40,40,40,40"

POLY_MSGS = [[1, 2, 3, 4, 5, 6, 7, 16], [16, 9, 8, 0, 0, 0, 0, 1], [3], [0, 0, 0, 0, 0, 0, 0, 0]]
CKKS_MSGS = [[[1, 0], [0, 1], [-2, 1], [3, -1]], [[2, 1], [-1, 0], [0, -2], [1, 1]], [[3, 0]], [[0, 0], [0, 0], [0, 0], [0, 0]]]

ARITH = ["Encode", "Encrypt", "Negate", "Add", "Sub", "Multiply", "Square", "Relin", "AddPlain", "SubPlain", "MulPlain",
         "ToNtt", "FromNtt", "PlainToNtt", "ModSwitchNext"]
FRESH = ["Encode", "Encrypt", "EncryptZero", "Expand", "Decrypt", "ModSwitchNext"]
CHAIN = ["Encode", "Encrypt", "EncryptZero", "Multiply", "ModSwitchNext", "ModSwitchTo", "RescaleNext", "RescaleTo",
         "PlainToNtt", "ModSwitchPlainNext", "ModSwitchPlainTo", "ToNtt", "FromNtt"]
GALOIS = ["Encode", "Encrypt", "Galois", "Rotate", "Conj", "ModSwitchNext", "ToNtt", "FromNtt", "Multiply"]


def msgs_for(info, msgs=None):
    if msgs is not None:
        return msgs
    if info["scheme"] == "ckks":
        h = info["n"] // 2
        return [m[:h] for m in CKKS_MSGS]
    n, t = info["n"], info["t"]
    out = []
    for m in POLY_MSGS:
        out.append([x % t if x < 16 else t - 1 for x in m[:n]])
    return out


def run_instance(rep, name, pset, *, actions, depth, ct_slots=("c1", "c2"), pt_slots=("p1",), max_size=5, scales=(30,),
                 extra_sample=2000, keysets=("default",), msgs=None, per_class=1, steps=None, elts=None, workers=8, tag_msgs=False, tag_alias=False,
                 deadline=20.0, rng=None, timeout=1500):
    """One TLC run of an HE.tla instance + replay of its behaviours. Accumulates into the Report."""
    rng = rng or random.Random(rep.seed)
    info = pset_info(pset)
    ms = msgs_for(info, msgs)
    stats = rep.cov.setdefault("runs", [])
    for ks in keysets:
        wd = workdir("%s_%s_%s" % (rep.prop, name, ks))
        cfg = write_instance(wd, "MC_" + name, info, actions=actions, ct_slots=list(ct_slots), pt_slots=list(pt_slots),
                             max_steps=depth, max_size=max_size, msgs=ms, scales=scales, keyset=ks, steps=steps, elts=elts, tag_msgs=tag_msgs, tag_alias=tag_alias)
        g = Graph()
        r = run_tlc("MC_" + name, cfg, wd, workers=workers, on_line=g.on_line, timeout=timeout)
        if r["violated"]:
            # the design itself breaks one of its invariants: that is a defect of the specification, i.e. a tool error
            log("\n".join(r["out"][-40:]))
            raise ToolError("HE.tla instance %s violates %s" % (name, r["violated"]))
        tlc_must_pass(r, name)
        behs, nclasses = g.behaviours(rng, per_class=per_class, extra_sample=extra_sample, glk=ks)
        t1 = time.time()
        results = replay_behaviours(pset, ms, behs, wd, deadline=deadline)
        nviol = 0
        for beh, res in results:
            st = res["status"]
            if st in ("ok", "diverged"):
                continue
            if st == "tool_error":
                raise ToolError("replayer: %s" % res)
            nviol += 1
            sig = signature(beh, res)
            sig["scheme"] = info["scheme"]
            rep.violation(sig, {"pset": pset, "msgs": ms, "behaviour": beh, "result": res})
        stats.append({"instance": name, "pset": pset, "keyset": ks, "depth": depth, "actions": actions,
                      "states_generated": r["generated"], "distinct_states": r["distinct"], "tlc_wall_s": round(r["wall_s"], 1),
                      "transitions_emitted": len(g.trans), "verdicts": g.verdicts, "classes": nclasses,
                      "behaviours_replayed": len(behs), "replay_wall_s": round(time.time() - t1, 1), "mismatches": nviol,
                      "per_action": g.ops})
        rep.cov["states"] = rep.cov.get("states", 0) + r["distinct"]
        rep.cov["transitions"] = rep.cov.get("transitions", 0) + r["generated"]
        rep.cov["traces_validated_against_impl"] = rep.cov.get("traces_validated_against_impl", 0) + len(behs)
        rep.cov["distinct_nontrivial"] = rep.cov.get("distinct_nontrivial", 0) + nclasses
        rep.cov["evaluations"] = rep.cov.get("evaluations", 0) + len(behs)
        never = [a for a in actions if not any(o for o in g.ops)]
        if behs and len(rep.samples) < 4:
            b = behs[len(behs) // 2]
            rep.samples.append({"instance": name, "program": [{"op": s["act"]["op"], "a": s["act"]["a"], "b": s["act"]["b"], "p": s["act"]["p"],
                                                              "dst": s["dst"], "verdict": s["v"], "expect": {k: s["out"][k] for k in ("size", "lvl", "ntt", "cf", "sc", "val", "cmp")}}
                                                             for s in b["steps"]]})
        log("[%s] %s/%s: %d distinct states, %d transitions, %d classes, %d replayed, %d mismatches (TLC %.1fs)" %
            (rep.prop, name, ks, r["distinct"], len(g.trans), nclasses, len(behs), nviol, r["wall_s"]))


TRACE_ASSUME = ["recorded programs: the driver chooses calls from the state of the real objects (seeded); after a call the specification does not constrain, "
                "the destination is untracked until it is overwritten; the BGV correction factor is adopted from the record where only the balancing post-condition is specified"]
COMMON_ASSUME = [
    "TLC explores the instance exhaustively up to the stated depth; values are tracked for one representative per typestate class (VIEW hides values and history)",
    "a panic of the library is observed as refusal; any panic counts",
    "exact plaintext equality is demanded only where the worst-case noise accounting of HE.tla guarantees correct decryption",
    "projection uses the library's own Decryptor/encoders to observe values",
]


def check_c01(rep):
    quick = rep.tier == "quick"
    rep.cov["rule"] = ("behaviours = paths of HE.tla restricted to encode/encrypt/encrypt_zero/expand/decrypt; a class is a distinct "
                       "(action, arguments, operand typestates) tuple; each class is replayed once plus a random sample of further transitions")
    psets = [BFV, BGV, CKKS, "bfv_4_17_30,30,30", "bgv_4_17_30,30,30", "bfv_16_97_40,40,40", "bgv_16_97_40,40,40", "ckks_4_0_40,40,40",
             "bfv_8_17_20,40,60,60", "bgv_8_17_60,30,40,60", "bfv_2_5_30,30", "bgv_2_5_30,30", "ckks_16_0_50,30,50",
             # plain modulus larger than one of the coefficient primes (no fast plain lift), power-of-two plain modulus
             "bfv_8_12289_10,50,50,50", "bgv_8_12289_50,12,50,50", "bfv_8_16_30,30,30", "bfv_8_7_30,30,30",
             # the special prime used for encryption (trailing s: first level = key level, no key switching), and single-prime chains
             "bfv_8_17_40,40,40s", "bgv_8_17_40,30,40s", "ckks_8_0_40,40,40s", "bfv_8_17_45", "bgv_4_17_40", "ckks_4_0_50",
             # contexts built without expanding the modulus chain (trailing x: only the key level and the first level exist)
             "bfv_8_17_40,40,40x", "bgv_8_17_40,50,40x", "ckks_8_0_40,40,40x"]
    if not quick:
        psets += ["bfv_32_193_50,50,50", "bgv_32_193_50,50,50", "bfv_8_17_60,60,60,60,60,60,60", "bgv_8_17_30,30,30,30,30,30,30",
                  "ckks_8_0_60,60,60,60,60", "bfv_64_257_45,45,45", "ckks_64_0_45,45,45", "bfv_4_97_25,25,25,25,25"]
    for i, ps in enumerate(psets):
        sch = ps.split("_")[0]
        n, t = int(ps.split("_")[1]), int(ps.split("_")[2])
        if sch == "ckks":
            h = n // 2
            msgs = [[[0, 0]], [[1, 0]], [[0, -1]], [[-3, 2]] * h, [[(-1) ** i * (i + 1), i - 2] for i in range(h)], [[7, 0]] + [[0, 0]] * (h - 1)]
        else:
            up = (t + 1) // 2
            msgs = [[0], [1], [t - 1], [up] * n, [up - 1] * (n - 1), [t - 1] * n, [(3 * i + 1) % t for i in range(n)], [0] * (n - 1) + [up]]
        run_instance(rep, "fresh%d" % i, ps, actions=FRESH, depth=4, ct_slots=("c1",), pt_slots=("p1",), msgs=msgs[:5] if quick else msgs, tag_msgs=True,
                     scales=(20, 30) if sch == "ckks" else (30,), extra_sample=3000 if quick else 20000)
    rep.assumptions += COMMON_ASSUME


def check_c02(rep):
    quick = rep.tier == "quick"
    rep.cov["rule"] = ("behaviours = paths of HE.tla over encode/encrypt/negate/add/sub/multiply/square/relinearize/plain ops/"
                       "representation changes/mod switch; class = distinct (action, operand typestates incl. size, level, representation, BGV correction factor)")
    d = 6 if quick else 8
    run_instance(rep, "arith_bfv", BFV, actions=ARITH, depth=d, extra_sample=5000 if quick else 50000)
    run_instance(rep, "arith_bgv", BGV, actions=ARITH, depth=d, extra_sample=5000 if quick else 50000)
    # larger sizes: three ciphertext slots, multiplication chain only
    big = ["Encode", "Encrypt", "Add", "Sub", "Multiply", "Square", "Relin", "Negate"]
    run_instance(rep, "sizes_bfv", "bfv_8_17_55,55,55,55", actions=big, depth=6 if quick else 7, ct_slots=("c1", "c2", "c3"), max_size=9,
                 extra_sample=3000 if quick else 30000)
    run_instance(rep, "sizes_bgv", "bgv_8_17_55,55,55,55", actions=big, depth=6 if quick else 7, ct_slots=("c1", "c2", "c3"), max_size=9,
                 extra_sample=3000 if quick else 30000)
    mono = [[0, 0, 5], [0, 16], [1, 2, 3, 4, 5, 6, 7, 16], [7]]
    plainops = ["Encode", "Encrypt", "Sub", "Add", "Negate", "MulPlain", "AddPlain", "SubPlain", "ToNtt", "FromNtt", "PlainToNtt", "Multiply"]
    run_instance(rep, "bigt_bfv", "bfv_8_12289_10,50,50,50", actions=plainops, depth=5, msgs=[[0, 0, 5], [0, 12288], [1, 2, 3, 7000, 5, 6, 7, 12288], [9000]], tag_msgs=True, extra_sample=3000)
    run_instance(rep, "bigt_bgv", "bgv_8_12289_50,12,50,50", actions=plainops, depth=5, msgs=[[0, 0, 5], [0, 12288], [1, 2, 3, 7000, 5, 6, 7, 12288], [9000]], tag_msgs=True, extra_sample=3000)
    run_instance(rep, "mono_bfv", BFV, actions=plainops, depth=5, msgs=mono, tag_msgs=True, extra_sample=3000)
    run_instance(rep, "mono_bgv", BGV, actions=plainops, depth=5, msgs=mono, tag_msgs=True, extra_sample=3000)
    # more correction-factor combinations: other plain moduli / prime residues, two switches
    cfacts = ["Encode", "Encrypt", "Add", "Sub", "Multiply", "ModSwitchNext", "Relin"]
    for i, ps in enumerate(["bgv_8_97_40,40,40,40", "bgv_8_17_45,38,52,55", "bgv_8_113_50,50,50,50"] if quick else
                           ["bgv_8_97_40,40,40,40", "bgv_8_17_45,38,52,55", "bgv_8_113_50,50,50,50", "bgv_8_193_50,44,50,50", "bgv_8_241_36,47,58,60", "bgv_8_257_50,50,50,50,50"]):
        run_instance(rep, "cf_bgv%d" % i, ps, actions=cfacts, depth=7 if quick else 8, extra_sample=3000 if quick else 30000)
    if not quick:
        run_instance(rep, "arith_bfv16", "bfv_16_97_50,50,50,50", actions=ARITH, depth=7, extra_sample=20000)
        run_instance(rep, "arith_bgv4", "bgv_4_17_40,40,40,40", actions=ARITH, depth=7, extra_sample=20000)
    # contexts that use the special prime for encryption (no key switching: the chain starts at the key level) and single-prime contexts
    nokeys = ["Encode", "Encrypt", "Add", "Sub", "Multiply", "Negate", "AddPlain", "MulPlain", "ModSwitchNext", "ToNtt", "FromNtt"]
    for nm, ps in (("special_bfv", "bfv_8_17_50,50,50s"), ("special_bgv", "bgv_8_17_50,40,50s"), ("single_bfv", "bfv_8_17_58"), ("single_bgv", "bgv_8_17_58")):
        run_instance(rep, nm, ps, actions=nokeys, depth=5 if quick else 6, extra_sample=2000 if quick else 20000)
    # plain moduli that are not prime (no batching; BGV correction factors are units modulo a composite)
    for nm, ps in (("pow2_bfv", "bfv_8_16_50,50,50,50"), ("pow2_bgv", "bgv_8_16_50,50,50,50"), ("comp_bgv", "bgv_8_15_50,44,50,50")):
        run_instance(rep, nm, ps, actions=["Encode", "Encrypt", "Add", "Sub", "Multiply", "Relin", "Negate", "MulPlain", "AddPlain", "ModSwitchNext"], depth=5 if quick else 6,
                     msgs=[[1, 2, 3], [0, 7], [5, 0, 0, 11, 0, 0, 0, 13], [9]], extra_sample=2000 if quick else 20000)
    # contexts whose modulus chain is not expanded: one level, key switching available, every switch down must be refused
    for nm, ps in (("noexpand_bfv", "bfv_8_17_50,50,50x"), ("noexpand_bgv", "bgv_8_17_50,50,50x")):
        run_instance(rep, nm, ps, actions=["Encode", "Encrypt", "Add", "Sub", "Multiply", "Relin", "Negate", "MulPlain", "ModSwitchNext", "Rotate"], depth=5 if quick else 6,
                     steps=[1, -2], extra_sample=2000 if quick else 20000)
    # k-ary sum and product (1..4 operands, repetitions, mixed levels / sizes / correction factors)
    kary = ["Encode", "Encrypt", "AddMany", "MultiplyMany", "Multiply", "ModSwitchNext"]
    for sch, ps in (("bfv", "bfv_8_17_55,55,55,55"), ("bgv", "bgv_8_17_55,55,55,55")):
        run_instance(rep, "kary_" + sch, ps, actions=kary, depth=4 if quick else 5, ct_slots=("c1", "c2"), pt_slots=("p1",), msgs=[[1, 2, 3], [0, 16], [5]], extra_sample=2000 if quick else 20000)
    # impl -> spec: recorded seeded-random programs validated against Trace_HE.tla (DESIGN.md 4.5)
    import he_trace
    for nm, ps in (("bfv", BFV), ("bgv", BGV), ("bfv_bigt", "bfv_8_12289_10,50,50,50"), ("bgv_mixed", "bgv_8_17_36,50,45,50"), ("bfv16", "bfv_16_97_50,50,50,50"),
                   ("bgv32", "bgv_32_193_50,44,50,50")):
        he_trace.run_trace(rep, nm, ps, nprogs=25 if quick else 400, length=80 if quick else 150)
    rep.assumptions += TRACE_ASSUME
    rep.assumptions += COMMON_ASSUME


def check_c03(rep):
    quick = rep.tier == "quick"
    rep.cov["rule"] = ("behaviours = paths of the CKKS instance of HE.tla (arithmetic, plain ops, rescale, mod switch); class = distinct "
                       "(action, operand typestates incl. level, size and the scale expression); slots are Gaussian integers, compared within the "
                       "worst-case error 2^nb carried by the model; the scale is compared bit-for-bit with the IEEE evaluation of the model's expression")
    acts = ["Encode", "Encrypt", "Negate", "Add", "Sub", "Multiply", "Square", "Relin", "AddPlain", "SubPlain", "MulPlain",
            "RescaleNext", "ModSwitchNext"]
    run_instance(rep, "ckks", CKKS, actions=acts, depth=6 if quick else 7, scales=(20, 30), extra_sample=5000 if quick else 50000)
    run_instance(rep, "ckks_mixed", "ckks_8_0_50,30,40,50", actions=acts, depth=6 if quick else 7, scales=(25, 38), extra_sample=3000 if quick else 30000)
    if not quick:
        run_instance(rep, "ckks5", "ckks_8_0_40,40,40,40,40,40", actions=acts, depth=7, scales=(30, 38), extra_sample=30000)
        run_instance(rep, "ckks16", "ckks_16_0_45,35,45,45", actions=acts, depth=6, scales=(20, 33), extra_sample=30000)
    import he_trace
    for nm, ps, sc in (("ckks", CKKS, (30, 20)), ("ckks_mixed", "ckks_8_0_30,50,40,45,50", (25,)), ("ckks16", "ckks_16_0_40,40,40,40", (30,)), ("ckks64", "ckks_64_0_45,45,45", (30,))):
        he_trace.run_trace(rep, nm, ps, nprogs=25 if quick else 400, length=80 if quick else 150, scales=sc)
    rep.assumptions += TRACE_ASSUME
    rep.assumptions += COMMON_ASSUME + ["the error bound 2^nb is the deliberately loose closed form of HE.tla (Appendix B of DESIGN.md)"]


def check_c04(rep):
    quick = rep.tier == "quick"
    rep.cov["rule"] = ("behaviours = paths over encrypt / apply_galois (every odd element) / rotate (every step) / conjugate-or-column-swap / mod switch, and over encryption under a second secret key / key switching to the context's key, "
                       "with the default power-of-two key set (NAF-composed rotations) and with a key for every element; class = distinct (action, element or step, operand typestate)")
    for sch, ps in (("bfv", BFV), ("bgv", BGV), ("ckks", CKKS)):
        run_instance(rep, "gal_" + sch, ps, actions=GALOIS, depth=5 if quick else 6, keysets=("default", "all"), extra_sample=3000 if quick else 30000)
    for sch, ps in (("bfv", "bfv_16_97_45,45,45"), ("ckks", "ckks_16_0_40,40,40"), ("bgv", "bgv_32_193_45,45,45"), ("bfv", "bfv_64_257_45,45,45")) if quick else (("bfv", "bfv_16_97_45,45,45"), ("bgv", "bgv_16_97_45,45,45"), ("ckks", "ckks_16_0_40,40,40"), ("bfv", "bfv_32_193_45,45,45"),
                                                                                                                       ("bgv", "bgv_64_257_45,45,45"), ("ckks", "ckks_32_0_40,40,40")):
        run_instance(rep, "gal16_" + sch + ps.split("_")[1], ps, actions=["Encode", "Encrypt", "Galois", "Rotate", "Conj"], depth=4 if quick else 5, ct_slots=("c1",),
                     keysets=("default", "all"), extra_sample=2000 if quick else 20000)
    # switching to another secret key: ciphertexts encrypted under a second key of the context (all four modes), moved along the
    # chain / added / multiplied by a plaintext under that key, then switched with the key-switching key and used under the context's key
    ksw = ["Encode", "Encrypt", "EncryptOther", "KeySwitch", "Expand", "Decrypt", "ModSwitchNext", "Add", "MulPlain", "Multiply", "Rotate"]
    for sch, ps in (("bfv", BFV), ("bgv", BGV), ("ckks", CKKS), ("bfv", "bfv_8_17_30,30,50,40"), ("bgv", "bgv_8_17_36,50,45")):
        run_instance(rep, "ksw_" + sch + "_" + ps.split("_")[3].replace(",", ""), ps, actions=ksw, depth=5 if quick else 6, ct_slots=("c1", "c2"), pt_slots=("p1",),
                     steps=[1], scales=(30,), extra_sample=2000 if quick else 20000)
    import he_trace
    for nm, ps, sc in (("bfv_allkeys", BFV, (30,)), ("bgv_allkeys", BGV, (30,)), ("ckks_allkeys", CKKS, (30,))):
        he_trace.run_trace(rep, nm, ps, nprogs=15 if quick else 200, length=80 if quick else 150, scales=sc, glk="all")
    rep.assumptions += TRACE_ASSUME
    rep.assumptions += COMMON_ASSUME


def chain_loop_model(rep, nl):
    """spec/Chain.tla: the to-target loop terminates, ends on the target and refuses upward targets (design);
    the loop of the pinned commit (condition on the immutable source) is refuted by TLC on both counts."""
    wd = workdir("C05_chainloop")
    def run(name, variant, n, invs, props):
        cfg = os.path.join(wd, name + ".cfg")
        open(cfg, "w").write("SPECIFICATION Spec\nCONSTANTS\n  NL = %d\n  CondReads = \"%s\"\n%s%sCHECK_DEADLOCK FALSE\n" %
                             (n, variant, ("INVARIANTS " + " ".join(invs) + "\n") if invs else "", ("PROPERTIES " + " ".join(props) + "\n") if props else ""))
        return run_tlc("Chain", cfg, wd, workers=2, timeout=300)
    r = run("design", "destination", nl, ["TypeOk", "EndsOnTarget", "RefusesUpward", "OnlyDownward", "NoSpuriousRefusal", "StepCount"], ["Terminates"])
    tlc_must_pass(r, "Chain.tla (design)")
    rep.cov["states"] = rep.cov.get("states", 0) + r["distinct"]
    rep.cov["transitions"] = rep.cov.get("transitions", 0) + r["generated"]
    r1 = run("pinned_live", "source", 3, [], ["Terminates"])
    r2 = run("pinned_safe", "source", 3, ["EndsOnTarget"], [])
    live_refuted = any("Temporal property Terminates was violated" in l or "Temporal properties were violated" in l for l in r1["out"])
    safe_refuted = r2["violated"] == "EndsOnTarget"
    rep.cov["chain_loop"] = {"levels": nl, "design_states": r["distinct"], "design_holds": True,
                             "pinned_loop_termination_refuted_by_tlc": live_refuted, "pinned_loop_ends_on_target_refuted_by_tlc": safe_refuted}
    if not (live_refuted and safe_refuted):
        raise ToolError("sanity: the source-reading loop of Chain.tla should violate Terminates and EndsOnTarget")


def check_c05(rep):
    quick = rep.tier == "quick"
    rep.cov["rule"] = ("behaviours = paths over encrypt / multiply / mod_switch_to_next / mod_switch_to(every level) / rescale_to_next / rescale_to(every level) / "
                       "plaintext switching, on chains of 1..4 (quick) or 1..6 (thorough) levels; every step is executed in the in-place, destination and "
                       "value-returning form under a per-call deadline (non-termination is an observable outcome)")
    chain_loop_model(rep, 6 if quick else 10)
    chains = [2, 3, 4, 5] if quick else [2, 3, 4, 5, 6, 7]
    for k in chains:
        bits = ",".join(["40"] * k)
        for sch in ("bfv", "bgv", "ckks"):
            ps = "%s_8_%d_%s" % (sch, 0 if sch == "ckks" else 17, bits)
            run_instance(rep, "chain%d_%s" % (k - 1, sch), ps, actions=CHAIN, depth=4 if k > 3 else 5, ct_slots=("c1", "c2"), pt_slots=("p1",),
                         scales=(20, 30), extra_sample=2000 if quick else 20000, deadline=10.0)
    mixed = ["30,30,50,50", "20,40,60,60", "60,30,45,60"] if quick else ["30,30,50,50", "20,40,60,60", "60,30,45,60", "25,25,25,60,60", "50,20,50,20,60", "17,23,31,41,53,60"]
    for i, bits in enumerate(mixed):
        for sch in ("bfv", "bgv", "ckks"):
            ps = "%s_8_%d_%s" % (sch, 0 if sch == "ckks" else 17, bits)
            run_instance(rep, "mixed%d_%s" % (i, sch), ps, actions=["Encode", "Encrypt", "EncryptZero", "ModSwitchNext", "ModSwitchTo", "RescaleNext", "RescaleTo", "Multiply"],
                         depth=4, ct_slots=("c1", "c2"), pt_slots=("p1",), scales=(15,), extra_sample=1000 if quick else 10000, deadline=10.0)
    rep.assumptions += COMMON_ASSUME + ["a call that does not return within 10 s (N=8, microseconds of work) is reported as non-termination"]


def check_c06(rep):
    quick = rep.tier == "quick"
    rep.cov["rule"] = ("behaviours = paths of the full HE.tla action set including single-field corruptions; after every checked step the result must satisfy "
                       "is_valid_for and an independent validity predicate; the three API forms must agree byte-for-byte; must-refuse operands must make the call panic")
    for sch, ps in (("bfv", BFV), ("bgv", BGV), ("ckks", CKKS)):
        run_instance(rep, "all_" + sch, ps, actions=ALL_ACTIONS, depth=3 if quick else 4, extra_sample=5000 if quick else 50000, scales=(20, 30))
    plainops = ["Encode", "Encrypt", "EncryptZero", "Sub", "Add", "Negate", "MulPlain", "AddPlain", "SubPlain", "ToNtt", "FromNtt", "PlainToNtt", "Multiply", "Square"]
    for sch, ps, msgs in (("bfv", BFV, [[0, 0, 5], [0, 16], [1, 2, 3, 4, 5, 6, 7, 16], [7]]), ("bgv", BGV, [[0, 0, 5], [0, 16], [1, 2, 3, 4, 5, 6, 7, 16], [7]]),
                          ("ckks", CKKS, None)):
        run_instance(rep, "plainops_" + sch, ps, actions=plainops, depth=(4 if sch == "ckks" else 5) if quick else (5 if sch == "ckks" else 6), msgs=msgs, tag_msgs=True, tag_alias=True,
                     extra_sample=5000 if quick else 50000, scales=(30,))
    import he_trace
    for nm, ps, sc in (("bfv", "bfv_8_17_45,45,45,45,45", (30,)), ("bgv", "bgv_8_17_45,45,45,45,45", (30,)), ("ckks", "ckks_8_0_40,40,40,40,40", (30, 20)),
                       ("bgv16", "bgv_16_97_45,45,45,45", (30,)), ("bfv32", "bfv_32_193_50,50,50,50", (30,)), ("ckks32", "ckks_32_0_40,40,40,40", (30,))):
        he_trace.run_trace(rep, nm, ps, nprogs=25 if quick else 400, length=100 if quick else 200, scales=sc)
    rep.assumptions += TRACE_ASSUME
    rep.assumptions += COMMON_ASSUME
