//! Projection functions: implementation object -> abstract state of the TLA+ specifications.
//! Shared by replay (spec -> impl) and trace recording (impl -> spec).
use crate::psets::Suite;
use heathcliff::*;
use num_complex::Complex;
use serde_json::{json, Value};
use std::panic::{catch_unwind, AssertUnwindSafe};

/// Run a closure, turning a panic into Err(message).
pub fn guarded<T>(f: impl FnOnce() -> T) -> Result<T, String> {
    match catch_unwind(AssertUnwindSafe(f)) {
        Ok(v) => Ok(v),
        Err(e) => {
            let msg = if let Some(s) = e.downcast_ref::<&str>() {
                s.to_string()
            } else if let Some(s) = e.downcast_ref::<String>() {
                s.clone()
            } else {
                "panic".to_string()
            };
            Err(msg)
        }
    }
}

pub fn silence_panics() {
    if std::env::var("HCV_LOUD").is_ok() {
        return;
    }
    std::panic::set_hook(Box::new(|_| {}));
}

/// Validity predicate written independently of `ValCheck` (C06).
pub fn independent_valid_ct(s: &Suite, c: &Ciphertext) -> Result<(), String> {
    let lvl = s.level_of(c.parms_id()).ok_or("parms id is not a ciphertext level of the context")?;
    let moduli = s.moduli_at(lvl);
    if c.size() < 2 || c.size() > 16 {
        return Err(format!("size {}", c.size()));
    }
    if c.coeff_modulus_size() != moduli.len() {
        return Err("coeff_modulus_size".into());
    }
    if c.poly_modulus_degree() != s.ps.n {
        return Err("poly_modulus_degree".into());
    }
    if c.data().len() != c.size() * moduli.len() * s.ps.n {
        return Err("buffer length".into());
    }
    let seeded = is_seeded(c);
    for p in 0..c.size() {
        for (j, q) in moduli.iter().enumerate() {
            for k in 0..s.ps.n {
                let v = c.data()[(p * moduli.len() + j) * s.ps.n + k];
                if v >= *q && !(seeded && p == 1) {
                    return Err(format!("residue {} >= modulus {} at poly {} comp {} idx {}", v, q, p, j, k));
                }
            }
        }
    }
    match s.ps.scheme {
        SchemeType::CKKS => {
            if !(c.scale() > 0.0 && c.scale().is_finite()) {
                return Err("scale".into());
            }
            if c.correction_factor() != 1 {
                return Err("correction factor".into());
            }
        }
        SchemeType::BFV => {
            if c.scale() != 1.0 {
                return Err("scale".into());
            }
            if c.correction_factor() != 1 {
                return Err("correction factor".into());
            }
        }
        _ => {
            if c.scale() != 1.0 {
                return Err("scale".into());
            }
            if c.correction_factor() == 0 || c.correction_factor() >= s.ps.t {
                return Err("correction factor".into());
            }
        }
    }
    Ok(())
}

pub fn independent_valid_pt(s: &Suite, p: &Plaintext) -> Result<(), String> {
    if p.data().len() != p.coeff_count() {
        return Err("buffer length".into());
    }
    if p.is_ntt_form() {
        let lvl = s.level_of(p.parms_id()).ok_or("parms id is not a ciphertext level of the context")?;
        let moduli = s.moduli_at(lvl);
        if p.coeff_count() != moduli.len() * s.ps.n {
            return Err("coeff count".into());
        }
        for (j, q) in moduli.iter().enumerate() {
            for k in 0..s.ps.n {
                if p.data()[j * s.ps.n + k] >= *q {
                    return Err("residue".into());
                }
            }
        }
    } else {
        if p.coeff_count() > s.ps.n {
            return Err("coeff count".into());
        }
        if p.data().iter().any(|&v| v >= s.ps.t) {
            return Err("coefficient >= t".into());
        }
    }
    Ok(())
}

/// Evaluate a scale expression tree of HE.tla in IEEE double arithmetic.
pub fn eval_scale(s: &Suite, e: &str) -> f64 {
    fn parse(s: &Suite, b: &[u8], i: &mut usize) -> f64 {
        match b[*i] {
            b'1' => {
                *i += 1;
                1.0
            }
            b'p' => {
                *i += 1;
                let st = *i;
                while *i < b.len() && (b[*i].is_ascii_digit() || b[*i] == b'-') {
                    *i += 1;
                }
                let e: i32 = std::str::from_utf8(&b[st..*i]).unwrap().parse().unwrap();
                2f64.powi(e)
            }
            b'm' => {
                *i += 2;
                let x = parse(s, b, i);
                *i += 1;
                let y = parse(s, b, i);
                *i += 1;
                x * y
            }
            b'd' => {
                *i += 2;
                let x = parse(s, b, i);
                *i += 1;
                let st = *i;
                while *i < b.len() && b[*i].is_ascii_digit() {
                    *i += 1;
                }
                let l: usize = std::str::from_utf8(&b[st..*i]).unwrap().parse().unwrap();
                *i += 1;
                let q = *s.moduli_at(l).last().unwrap();
                x / (q as f64)
            }
            c => panic!("bad scale expression at {}: {}", *i, c as char),
        }
    }
    let mut i = 0;
    parse(s, e.as_bytes(), &mut i)
}

/// Decrypt a ciphertext to the value the specification tracks:
/// BFV/BGV: the N coefficients mod t; CKKS: the N/2 decoded complex slots.
pub enum Val {
    Poly(Vec<u64>),
    Slots(Vec<Complex<f64>>),
}

pub fn value_of_plain(s: &Suite, p: &Plaintext) -> Result<Val, String> {
    guarded(|| {
        if s.ps.scheme == SchemeType::CKKS {
            Val::Slots(s.ckks.as_ref().unwrap().decode_new(p))
        } else {
            let mut v = p.data().clone();
            v.resize(s.ps.n, 0);
            Val::Poly(v)
        }
    })
}

pub fn value_of_ct(s: &Suite, c: &Ciphertext) -> Result<Val, String> {
    value_of_ct_with(s, c, &s.decryptor)
}

pub fn value_of_ct_with(s: &Suite, c: &Ciphertext, decryptor: &Decryptor) -> Result<Val, String> {
    guarded(|| {
        let default_ntt = s.ps.scheme != SchemeType::BFV;
        let mut c = c.clone();
        if c.is_ntt_form() && !default_ntt {
            s.evaluator.transform_from_ntt_inplace(&mut c);
        } else if !c.is_ntt_form() && default_ntt {
            s.evaluator.transform_to_ntt_inplace(&mut c);
        }
        let p = decryptor.decrypt_new(&c);
        value_of_plain(s, &p).unwrap()
    })
}

pub fn val_json(v: &Val) -> Value {
    match v {
        Val::Poly(p) => json!(p),
        Val::Slots(z) => json!(z.iter().map(|c| vec![c.re, c.im]).collect::<Vec<_>>()),
    }
}

pub fn is_seeded(c: &Ciphertext) -> bool {
    let off = c.coeff_modulus_size() * c.poly_modulus_degree();
    c.size() == 2 && c.data().len() > off && c.data()[off] == u64::MAX
}

pub fn project_ct(s: &Suite, c: &Ciphertext) -> Value {
    json!({
        "kind": "ct", "size": c.size(),
        "lvl": s.level_of(c.parms_id()).map(|l| l as i64).unwrap_or(-1),
        "ntt": c.is_ntt_form(), "cf": c.correction_factor(), "seeded": is_seeded(c),
        "scale_bits": c.scale().to_bits().to_string(),
    })
}

pub fn project_pt(s: &Suite, p: &Plaintext) -> Value {
    json!({
        "kind": "pt", "ntt": p.is_ntt_form(),
        "lvl": if p.is_ntt_form() { s.level_of(p.parms_id()).map(|l| l as i64).unwrap_or(-1) } else { 0 },
        "scale_bits": p.scale().to_bits().to_string(),
    })
}

pub fn ct_bytes_eq(a: &Ciphertext, b: &Ciphertext) -> bool {
    a.size() == b.size()
        && a.parms_id() == b.parms_id()
        && a.is_ntt_form() == b.is_ntt_form()
        && a.scale().to_bits() == b.scale().to_bits()
        && a.correction_factor() == b.correction_factor()
        && a.coeff_modulus_size() == b.coeff_modulus_size()
        && a.poly_modulus_degree() == b.poly_modulus_degree()
        && a.data() == b.data()
}

/// which observable part of two ciphertexts differs ("" when none)
pub fn ct_diff(a: &Ciphertext, b: &Ciphertext) -> String {
    let mut d = vec![];
    if a.size() != b.size() {
        d.push(format!("size {} vs {}", a.size(), b.size()));
    }
    if a.parms_id() != b.parms_id() {
        d.push("parms id".to_string());
    }
    if a.is_ntt_form() != b.is_ntt_form() {
        d.push("representation flag".to_string());
    }
    if a.scale().to_bits() != b.scale().to_bits() {
        d.push(format!("scale {:e} vs {:e}", a.scale(), b.scale()));
    }
    if a.correction_factor() != b.correction_factor() {
        d.push(format!("correction factor {} vs {}", a.correction_factor(), b.correction_factor()));
    }
    if a.coeff_modulus_size() != b.coeff_modulus_size() {
        d.push(format!("coeff_modulus_size {} vs {}", a.coeff_modulus_size(), b.coeff_modulus_size()));
    }
    if a.poly_modulus_degree() != b.poly_modulus_degree() {
        d.push("poly_modulus_degree".to_string());
    }
    if a.data().len() != b.data().len() {
        d.push(format!("data length {} vs {}", a.data().len(), b.data().len()));
    } else if a.data() != b.data() {
        d.push(format!("{} data words", a.data().iter().zip(b.data().iter()).filter(|(x, y)| x != y).count()));
    }
    d.join(", ")
}

pub fn pt_bytes_eq(a: &Plaintext, b: &Plaintext) -> bool {
    a.coeff_count() == b.coeff_count() && a.parms_id() == b.parms_id() && a.scale().to_bits() == b.scale().to_bits() && a.data() == b.data()
}
