//! C18: replay of Multiparty.tla delivery orders on real Participants.
use crate::project::*;
use crate::psets::*;
use heathcliff::multiparty::participant::Participant;
use heathcliff::multiparty::utils::{BFVShareSampler, BFVSimdShareEncoder};
use heathcliff::util::{BlakeRNG, PRNGSeed};
use heathcliff::verif::polymod;
use heathcliff::*;
use rand::SeedableRng;
use serde_json::{json, Value};
use std::sync::Arc;

thread_local! {
    /// cipher->shares: the aggregating party (id 0) does not send
    static STAR_NO_SEND: std::cell::Cell<bool> = std::cell::Cell::new(false);
    static SKIP_NONAGG_FINISH: std::cell::Cell<bool> = std::cell::Cell::new(false);
}

struct World {
    ps: PSet,
    ctx: Arc<HeContext>,
}

fn sum_keys(w: &World, keys: &[SecretKey]) -> SecretKey {
    let kd = w.ctx.key_context_data().unwrap();
    let parms = kd.parms();
    let mut s = keys[0].clone();
    for k in &keys[1..] {
        polymod::add_inplace_p(s.data_mut(), k.data(), parms.poly_modulus_degree(), parms.coeff_modulus());
    }
    s
}

fn message(w: &World, k: u64) -> (Plaintext, Value) {
    if w.ps.scheme == SchemeType::CKKS {
        let enc = CKKSEncoder::new(w.ctx.clone());
        let vals: Vec<f64> = (0..w.ps.n / 2).map(|i| (i as f64) - 1.0 + k as f64).collect();
        let c: Vec<num_complex::Complex<f64>> = vals.iter().map(|v| num_complex::Complex::new(*v, 0.0)).collect();
        (enc.encode_c64_array_new(&c, None, 2f64.powi(30)), json!(vals))
    } else {
        let be = BatchEncoder::new(w.ctx.clone());
        let vals: Vec<u64> = (0..w.ps.n as u64).map(|i| (i * 5 + 1 + k) % w.ps.t).collect();
        (be.encode_new(&vals), json!(vals))
    }
}

fn check_plain(w: &World, p: &Plaintext, want: &Value) -> Result<(), String> {
    if w.ps.scheme == SchemeType::CKKS {
        let enc = CKKSEncoder::new(w.ctx.clone());
        let got = guarded(|| enc.decode_new(p))?;
        for (i, v) in want.as_array().unwrap().iter().enumerate() {
            if (got[i].re - v.as_f64().unwrap()).abs() > 1e-3 || got[i].im.abs() > 1e-3 {
                return Err(format!("slot {}: {} expected {}", i, got[i], v));
            }
        }
        Ok(())
    } else {
        let be = BatchEncoder::new(w.ctx.clone());
        let got = guarded(|| be.decode_new(p))?;
        let want: Vec<u64> = want.as_array().unwrap().iter().map(|x| x.as_u64().unwrap()).collect();
        if got != want {
            return Err(format!("decoded {:?} expected {:?}", got, want));
        }
        Ok(())
    }
}

fn decrypt_check(w: &World, sk: &SecretKey, c: &Ciphertext, want: &Value) -> Result<(), String> {
    let d = guarded(|| Decryptor::new(w.ctx.clone(), sk.clone()).decrypt_new(c))?;
    check_plain(w, &d, want)
}

/// drive one broadcast round: `protos[i]` is Some(protocol of party i+1); returns for each party Some(Ok(output)) / Some(Err(refusal)) / None
macro_rules! run_round {
    ($protos:expr, $steps:expr, $send:ident, $recv:ident, $finish:expr) => {{
        let n = $protos.len();
        let mut msgs: Vec<Vec<u8>> = vec![];
        for (i, p) in $protos.iter().enumerate() {
            let mut m = vec![];
            if !(STAR_NO_SEND.with(|s| s.get()) && i == 0) {
                p.as_ref().unwrap().$send(&mut m).unwrap();
            }
            msgs.push(m);
        }
        let mut outs: Vec<Option<Result<_, String>>> = (0..n).map(|_| None).collect();
        let mut problem: Option<String> = None;
        for st in $steps.iter() {
            let f = st["f"].as_u64().unwrap() as usize - 1;
            let t = st["t"].as_u64().unwrap() as usize - 1;
            if st["a"].as_str().unwrap() == "deliver" {
                match $protos[t].as_mut() {
                    Some(p) => {
                        let r = guarded(|| p.$recv(f, &mut msgs[f].as_slice()));
                        if !matches!(r, Ok(Ok(()))) {
                            problem = Some(format!("receive of party {}'s message by party {} failed", f + 1, t + 1));
                            break;
                        }
                    }
                    None => {
                        problem = Some("delivery to a finished party".into());
                        break;
                    }
                }
            } else {
                if SKIP_NONAGG_FINISH.with(|s| s.get()) && f != 0 {
                    continue; // shares->cipher: only the aggregating party produces the ciphertext
                }
                let p = $protos[f].take().unwrap();
                let r = guarded(|| $finish(p));
                let expect_ok = st["ok"].as_bool().unwrap();
                match (&r, expect_ok) {
                    (Ok(_), false) => {
                        problem = Some(format!("party {} finished without having every other party's message", f + 1));
                    }
                    (Err(e), true) => {
                        problem = Some(format!("party {} could not finish although it had every message: {}", f + 1, e));
                    }
                    _ => {}
                }
                outs[f] = Some(r);
                if problem.is_some() {
                    break;
                }
            }
        }
        (outs, problem)
    }};
}

pub fn replay(w: &World, beh: &Value) -> Value {
    let n = beh["n"].as_u64().unwrap() as usize;
    let proto = beh["proto"].as_str().unwrap();
    let steps = beh["steps"].as_array().unwrap().clone();
    let seed = PRNGSeed([beh["id"].as_u64().unwrap_or(1) as u8 | 1; 64]);
    let mut parts: Vec<Participant> = (0..n).map(|i| Participant::new(n, i, w.ctx.clone(), BlakeRNG::from_seed(seed))).collect();
    let sks: Vec<SecretKey> = parts.iter().map(|p| p.secret_key().clone()).collect();
    let sk_sum = sum_keys(w, &sks);
    let (plain, want) = message(w, beh["id"].as_u64().unwrap_or(0) % 5);
    // a ciphertext under the collective key
    let cipher = {
        let mut c = Ciphertext::new();
        Encryptor::new(w.ctx.clone()).set_secret_key(sk_sum.clone()).encrypt_symmetric(&plain, &mut c);
        c
    };
    let viol = |kind: &str, d: String| json!({"id": beh["id"], "status": "violation", "kind": kind, "detail": d});
    // collective key material recorded as RLWE samples under the SUM of the secret keys (judged by TLC: Keys.tla)
    let mut key_events: Vec<Value> = vec![];
    match proto {
        "pk" => {
            let mut protos: Vec<Option<_>> = parts.iter_mut().map(|p| Some(p.generate_public_key())).collect();
            let (outs, problem) = run_round!(protos, steps, send, receive, |p: heathcliff::multiparty::participant::PublicKeyGenerationProtocol| p.finish());
            if let Some(p) = problem {
                return viol("round", p);
            }
            let done: Vec<&PublicKey> = outs.iter().filter_map(|o| o.as_ref().and_then(|r| r.as_ref().ok())).collect();
            for pk in &done {
                if pk.data() != done[0].data() {
                    return viol("agreement", "parties derived different collective public keys".into());
                }
            }
            if let Some(pk) = done.first() {
                let kw = crate::keys::KeyWorld::new(&w.ctx);
                let mult = if w.ps.scheme == SchemeType::BGV { w.ps.t } else { 1 };
                key_events.push(json!({"ev": "key_rlwe", "what": "collective_public_key", "detail": {"parties": n}, "n": kw.n, "q": kw.q, "bound": 21 * n, "mult": mult,
                                       "comps": [kw.error_of(pk.as_ciphertext(), &kw.secret(&sk_sum), &kw.zero())]}));
                let r = guarded(|| Encryptor::new(w.ctx.clone()).set_public_key((*pk).clone()).encrypt_new(&plain));
                match r {
                    Ok(c) => {
                        if let Err(e) = decrypt_check(w, &sk_sum, &c, &want) {
                            return viol("key_sum", format!("the collective public key does not correspond to the sum of the secret keys: {}", e));
                        }
                    }
                    Err(e) => return viol("key_sum", format!("collective public key unusable: {}", e)),
                }
            }
        }
        "sk" => {
            let mut protos: Vec<Option<_>> = parts.iter().map(|p| Some(p.reveal_secret_key())).collect();
            let (outs, problem) = run_round!(protos, steps, send, receive, |p: heathcliff::multiparty::participant::SecretKeyRevelationProtocol| p.finish());
            if let Some(p) = problem {
                return viol("round", p);
            }
            for o in outs.iter().flatten() {
                if let Ok(k) = o {
                    if k.data() != sk_sum.data() {
                        return viol("agreement", "revealed secret key is not the sum of the parties' keys".into());
                    }
                }
            }
        }
        "relin" => {
            let mut protos: Vec<Option<_>> = parts.iter_mut().map(|p| Some(p.generate_relin_keys())).collect();
            // round 1 with the behaviour's order; "finish" = step2
            let (outs1, problem) = {
                let n = protos.len();
                let mut msgs: Vec<Vec<u8>> = vec![];
                for p in protos.iter() {
                    let mut m = vec![];
                    p.as_ref().unwrap().send_step1(&mut m).unwrap();
                    msgs.push(m);
                }
                let mut ok: Vec<Option<bool>> = vec![None; n];
                let mut problem: Option<String> = None;
                for st in steps.iter() {
                    let f = st["f"].as_u64().unwrap() as usize - 1;
                    let t = st["t"].as_u64().unwrap() as usize - 1;
                    if st["a"].as_str().unwrap() == "deliver" {
                        if let Some(p) = protos[t].as_mut() {
                            if !matches!(guarded(|| p.receive_step1(f, &mut msgs[f].as_slice())), Ok(Ok(()))) {
                                problem = Some("receive_step1 failed".into());
                                break;
                            }
                        }
                    } else {
                        let expect_ok = st["ok"].as_bool().unwrap();
                        let r = guarded(|| protos[f].as_mut().unwrap().step2());
                        match (&r, expect_ok) {
                            (Ok(_), false) => problem = Some(format!("party {} entered round 2 without every round-1 message", f + 1)),
                            (Err(e), true) => problem = Some(format!("party {} could not enter round 2: {}", f + 1, e)),
                            _ => {}
                        }
                        ok[f] = Some(r.is_ok());
                        if !r.is_ok() {
                            protos[f] = None;
                        }
                        if problem.is_some() {
                            break;
                        }
                    }
                }
                (ok, problem)
            };
            if let Some(p) = problem {
                return viol("round", p);
            }
            if outs1.iter().all(|o| *o == Some(true)) {
                // round 2: same order
                let (outs, problem) = run_round!(protos, steps, send_step2, receive_step2, |p: heathcliff::multiparty::participant::RelinKeysGenerationProtocol| p.finish());
                if let Some(p) = problem {
                    return viol("round", p);
                }
                let done: Vec<&RelinKeys> = outs.iter().filter_map(|o| o.as_ref().and_then(|r| r.as_ref().ok())).collect();
                for rk in &done {
                    let a = rk.as_kswitch_keys().data()[0].iter().map(|k| k.data().clone()).collect::<Vec<_>>();
                    let b = done[0].as_kswitch_keys().data()[0].iter().map(|k| k.data().clone()).collect::<Vec<_>>();
                    if a != b {
                        return viol("agreement", "parties derived different relinearization keys".into());
                    }
                }
                if let Some(rk) = done.first() {
                    // the collective relinearization key as RLWE samples under S = s_1 + .. + s_n with payload P * S^2 on prime i;
                    // the error of protocol 2 (Mouchet et al.) is a sum of products of secrets, ternary masks and errors: |e| <= 4 N n^2 21
                    let kw = crate::keys::KeyWorld::new(&w.ctx);
                    let ss = kw.secret(&sk_sum);
                    let s2: Vec<Vec<u64>> = (0..kw.q.len()).map(|j| crate::keys::negacyclic_mul(&ss[j], &ss[j], kw.q[j])).collect();
                    let comps: Vec<Vec<Vec<u64>>> = rk.as_kswitch_keys().data()[0].iter().enumerate().map(|(i, c)| kw.error_of(c.as_ciphertext(), &ss, &kw.payload_on(i, &s2))).collect();
                    let mult = if w.ps.scheme == SchemeType::BGV { w.ps.t } else { 1 };
                    key_events.push(json!({"ev": "key_rlwe", "what": "collective_relin_key", "detail": {"parties": n}, "n": kw.n, "q": kw.q, "bound": 4 * kw.n * n * n * 21, "mult": mult, "comps": comps}));
                    let ev = Evaluator::new(w.ctx.clone());
                    let r = guarded(|| ev.relinearize_new(&ev.multiply_new(&cipher, &cipher), rk));
                    let sq: Value = if w.ps.scheme == SchemeType::CKKS {
                        json!(want.as_array().unwrap().iter().map(|v| v.as_f64().unwrap() * v.as_f64().unwrap()).collect::<Vec<_>>())
                    } else {
                        json!(want.as_array().unwrap().iter().map(|v| v.as_u64().unwrap() * v.as_u64().unwrap() % w.ps.t).collect::<Vec<_>>())
                    };
                    match r {
                        Ok(c) => {
                            if let Err(e) = decrypt_check(w, &sk_sum, &c, &sq) {
                                return viol("key_sum", format!("collective relinearization keys do not relinearize under the summed key: {}", e));
                            }
                        }
                        Err(e) => return viol("key_sum", format!("collective relinearization keys unusable: {}", e)),
                    }
                }
            }
        }
        "decrypt" => {
            let mut protos: Vec<Option<_>> = parts.iter().map(|p| Some(p.decrypt(&cipher))).collect();
            let (outs, problem) = run_round!(protos, steps, send, receive, |p: heathcliff::multiparty::participant::DecryptionProtocol| p.finish());
            if let Some(p) = problem {
                return viol("round", p);
            }
            for o in outs.iter().flatten() {
                if let Ok(pl) = o {
                    if let Err(e) = check_plain(w, pl, &want) {
                        return viol("plaintext", format!("collective decryption: {}", e));
                    }
                }
            }
        }
        "keyswitch" => {
            let news: Vec<SecretKey> = (0..n).map(|_| KeyGenerator::new(w.ctx.clone()).secret_key().clone()).collect();
            let new_sum = sum_keys(w, &news);
            let mut protos: Vec<Option<_>> = parts.iter().zip(news.iter()).map(|(p, k)| Some(p.key_switch(&cipher, k))).collect();
            let (outs, problem) = run_round!(protos, steps, send, receive, |p: heathcliff::multiparty::participant::KeySwitchProtocol| p.finish());
            if let Some(p) = problem {
                return viol("round", p);
            }
            let done: Vec<&Ciphertext> = outs.iter().filter_map(|o| o.as_ref().and_then(|r| r.as_ref().ok())).collect();
            for c in &done {
                if !ct_bytes_eq(c, done[0]) {
                    return viol("agreement", "parties derived different key-switched ciphertexts".into());
                }
                if let Err(e) = decrypt_check(w, &new_sum, c, &want) {
                    return viol("plaintext", format!("key switching: {}", e));
                }
            }
        }
        "pkswitch" => {
            let kg = KeyGenerator::new(w.ctx.clone());
            let pk2 = kg.create_public_key(false);
            let mut protos: Vec<Option<_>> = parts.iter().map(|p| Some(p.public_key_switch(&cipher, &pk2))).collect();
            let (outs, problem) = run_round!(protos, steps, send, receive, |p: heathcliff::multiparty::participant::PublicKeySwitchProtocol| p.finish());
            if let Some(p) = problem {
                return viol("round", p);
            }
            let done: Vec<&Ciphertext> = outs.iter().filter_map(|o| o.as_ref().and_then(|r| r.as_ref().ok())).collect();
            for c in &done {
                if !ct_bytes_eq(c, done[0]) {
                    return viol("agreement", "parties derived different public-key-switched ciphertexts".into());
                }
                if let Err(e) = decrypt_check(w, kg.secret_key(), c, &want) {
                    return viol("plaintext", format!("public key switching: {}", e));
                }
            }
        }
        "c2s" => {
            let sampler = BFVShareSampler::new(w.ctx.clone());
            let se = BFVSimdShareEncoder::new(w.ctx.clone());
            let mut protos: Vec<Option<_>> = parts.iter().map(|p| Some(p.cipher_to_shares(cipher.clone(), &sampler, &se))).collect();
            STAR_NO_SEND.with(|s| s.set(true));
            let (outs, problem) = run_round!(protos, steps, send, receive, |p: heathcliff::multiparty::participant::CipherToSharesProtocol<Vec<u64>>| p.finish(&se));
            STAR_NO_SEND.with(|s| s.set(false));
            if let Some(p) = problem {
                return viol("round", p);
            }
            if outs.iter().all(|o| matches!(o, Some(Ok(_)))) {
                let mut sum = vec![0u64; w.ps.n];
                for o in outs.iter().flatten() {
                    for (i, v) in o.as_ref().unwrap().iter().enumerate() {
                        sum[i] = (sum[i] + v) % w.ps.t;
                    }
                }
                let wantv: Vec<u64> = want.as_array().unwrap().iter().map(|x| x.as_u64().unwrap()).collect();
                if sum != wantv {
                    return viol("plaintext", format!("shares sum to {:?}, plaintext is {:?}", sum, wantv));
                }
            }
        }
        "c2s_s2c" => {
            // cipher -> shares -> cipher on the same participants, followed by a key generation: the common tape must stay in step
            let sampler = BFVShareSampler::new(w.ctx.clone());
            let se = BFVSimdShareEncoder::new(w.ctx.clone());
            let all_to_one: Vec<Value> = (2..=n).map(|f| json!({"a": "deliver", "f": f, "t": 1, "ok": true})).chain((1..=n).map(|i| json!({"a": "finish", "f": i, "t": i, "ok": true}))).collect();
            let shares: Vec<Vec<u64>> = {
                let mut protos: Vec<Option<_>> = parts.iter().map(|p| Some(p.cipher_to_shares(cipher.clone(), &sampler, &se))).collect();
                STAR_NO_SEND.with(|s| s.set(true));
                let (outs, problem) = run_round!(protos, all_to_one, send, receive, |p: heathcliff::multiparty::participant::CipherToSharesProtocol<Vec<u64>>| p.finish(&se));
                STAR_NO_SEND.with(|s| s.set(false));
                if let Some(p) = problem {
                    return viol("round", p);
                }
                outs.into_iter().map(|o| o.unwrap().unwrap()).collect()
            };
            let back = {
                let mut protos: Vec<Option<_>> = parts.iter_mut().zip(shares.iter()).map(|(p, s)| Some(p.shares_to_cipher(s, &se))).collect();
                SKIP_NONAGG_FINISH.with(|s| s.set(true));
                let (outs, problem) = run_round!(protos, steps, send, receive, |p: heathcliff::multiparty::participant::KeySwitchProtocol| p.finish());
                SKIP_NONAGG_FINISH.with(|s| s.set(false));
                if let Some(p) = problem {
                    return viol("round", p);
                }
                outs.into_iter().next().unwrap()
            };
            if let Some(Ok(c)) = back {
                if let Err(e) = decrypt_check(w, &sk_sum, &c, &want) {
                    return viol("plaintext", format!("cipher -> shares -> cipher does not preserve the plaintext: {}", e));
                }
            }
            // a later key generation on the same participants still agrees
            let all: Vec<Value> = (1..=n).flat_map(|f| (1..=n).filter(move |t| *t != f).map(move |t| json!({"a": "deliver", "f": f, "t": t, "ok": true}))).chain((1..=n).map(|i| json!({"a": "finish", "f": i, "t": i, "ok": true}))).collect();
            let mut protos: Vec<Option<_>> = parts.iter_mut().map(|p| Some(p.generate_public_key())).collect();
            let (outs, problem) = run_round!(protos, all, send, receive, |p: heathcliff::multiparty::participant::PublicKeyGenerationProtocol| p.finish());
            if let Some(p) = problem {
                return viol("round", p);
            }
            let done: Vec<&PublicKey> = outs.iter().filter_map(|o| o.as_ref().and_then(|r| r.as_ref().ok())).collect();
            for pk in &done {
                if pk.data() != done[0].data() {
                    return viol("agreement", "after a cipher->shares round the parties derive different collective public keys (common random tape out of step)".into());
                }
            }
        }
        "s2c" => {
            let se = BFVSimdShareEncoder::new(w.ctx.clone());
            let shares: Vec<Vec<u64>> = (0..n).map(|i| (0..w.ps.n as u64).map(|j| (j * 3 + i as u64 * 7 + 1) % w.ps.t).collect()).collect();
            let mut protos: Vec<Option<_>> = parts.iter_mut().zip(shares.iter()).map(|(p, s)| Some(p.shares_to_cipher(s, &se))).collect();
            SKIP_NONAGG_FINISH.with(|s| s.set(true));
            let (outs, problem) = run_round!(protos, steps, send, receive, |p: heathcliff::multiparty::participant::KeySwitchProtocol| p.finish());
            SKIP_NONAGG_FINISH.with(|s| s.set(false));
            if let Some(p) = problem {
                return viol("round", p);
            }
            let mut sum = vec![0u64; w.ps.n];
            for s in &shares {
                for (i, v) in s.iter().enumerate() {
                    sum[i] = (sum[i] + v) % w.ps.t;
                }
            }
            // only the aggregating party (id 0) outputs the ciphertext
            let done: Vec<&Ciphertext> = outs.iter().take(1).filter_map(|o| o.as_ref().and_then(|r| r.as_ref().ok())).collect();
            for c in &done {
                if let Err(e) = decrypt_check(w, &sk_sum, c, &json!(sum)) {
                    return viol("plaintext", format!("shares to cipher: {}", e));
                }
            }
        }
        _ => return json!({"id": beh["id"], "status": "tool_error", "detail": "unknown protocol"}),
    }
    json!({"id": beh["id"], "status": "ok", "key_events": key_events})
}

pub fn main(args: &[String]) {
    silence_panics();
    let ps = pset(&args[0]);
    let ctx = HeContext::new(ps.params(), true, SecurityLevel::None);
    let w = World { ps, ctx };
    use std::io::BufRead;
    let f = std::io::BufReader::new(std::fs::File::open(&args[1]).unwrap());
    let skip: usize = args.get(2).map(|x| x.parse().unwrap()).unwrap_or(0);
    for (i, line) in f.lines().enumerate() {
        if i < skip {
            continue;
        }
        let beh: Value = serde_json::from_str(&line.unwrap()).unwrap();
        println!("{}", json!({"start": i}));
        let r = guarded(|| replay(&w, &beh)).unwrap_or_else(|e| json!({"id": beh["id"], "status": "violation", "kind": "panic", "detail": e}));
        println!("{}", r);
    }
    println!("{}", json!({"done": true}));
}
