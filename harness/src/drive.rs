//! he-drive: seeded-random programs run directly against the library and recorded for spec/Trace_HE.tla.
//!
//! The driver chooses every call from what the REAL objects look like (operands of equal level and
//! representation most of the time, relinearization of what has size 3, rescaling after a CKKS product, ...)
//! and mixes in ill-typed calls.  It does not know what the specification expects: it only records
//! the action, whether the call returned, whether the API forms agreed, and the projection of the result.
use crate::he::*;
use crate::project::*;
use crate::psets::*;
use heathcliff::*;
use rand::{Rng, SeedableRng};
use serde_json::{json, Value};
use std::collections::HashMap;

struct Names {
    ct: Vec<String>,
    pt: Vec<String>,
}

fn pick<'a>(rng: &mut rand::rngs::StdRng, v: &'a [String]) -> &'a String {
    &v[rng.gen_range(0..v.len())]
}

fn cts(pool: &Pool, names: &Names) -> Vec<String> {
    names.ct.iter().filter(|n| matches!(pool.slots.get(*n), Some(Obj::Ct(_)))).cloned().collect()
}
fn pts(pool: &Pool, names: &Names) -> Vec<String> {
    names.pt.iter().filter(|n| matches!(pool.slots.get(*n), Some(Obj::Pt(_)))).cloned().collect()
}
fn ct_of<'a>(pool: &'a Pool, n: &str) -> &'a Ciphertext {
    match pool.slots.get(n) {
        Some(Obj::Ct(c)) => c,
        _ => unreachable!(),
    }
}

fn run_call(s: &Suite, cfg: &Cfg, pool: &mut Pool, key_of: &mut HashMap<String, u64>, last_was_product: &mut Option<String>, a: Value, dst: String) {
    let op = a["op"].as_str().unwrap().to_string();
    let res = match exec_step(s, cfg, pool, &a, &dst) {
        Some(r) => r,
        None => return,
    };
    let forms = res.forms_problem.clone().unwrap_or_default();
    let key = match op.as_str() {
        "encrypt_other" => 2,
        "keyswitch" | "encrypt" | "encrypt_zero" => 1,
        "add_many" | "multiply_many" => *key_of.get(a["ops"][0].as_str().unwrap()).unwrap_or(&1),
        _ => *key_of.get(a["a"].as_str().unwrap()).unwrap_or(&1),
    };
    match res.outcome {
        Outcome::Ret(o) => {
            println!("{}", json!({"ev": "call", "act": a, "dst": dst, "refused": false, "detail": "", "forms": forms, "obs": observe_under(s, &o, true, key)}));
            key_of.insert(dst.clone(), key);
            *last_was_product = if op == "multiply" || op == "square" || op == "multiply_plain" { Some(dst.clone()) } else { None };
            pool.slots.insert(dst, o);
        }
        Outcome::Refused(e) => {
            println!("{}", json!({"ev": "call", "act": a, "dst": dst, "refused": true, "detail": e, "forms": forms, "obs": {}}));
        }
    }
}

fn act(op: &str) -> Value {
    json!({"op": op, "a": "", "b": "", "p": "", "lvl": 0, "mode": "", "m": 0, "e": 0, "g": 0, "s": 0, "f": "", "ops": []})
}

pub fn main(args: &[String]) {
    silence_panics();
    let cfgj: Value = serde_json::from_str(&std::fs::read_to_string(&args[0]).unwrap()).unwrap();
    // hcv he-drive <cfg> random <seed> <programs> <length>  |  hcv he-drive <cfg> program <file: [{act, dst}, ...]>
    let fixed: Option<Vec<Value>> = if args[1] == "program" {
        Some(serde_json::from_str::<Value>(&std::fs::read_to_string(&args[2]).unwrap()).unwrap().as_array().unwrap().clone())
    } else {
        None
    };
    let (seed, nprogs, len): (u64, usize, usize) = match &fixed {
        Some(f) => (0, 1, f.len()),
        None => (args[2].parse().unwrap(), args[3].parse().unwrap(), args[4].parse().unwrap()),
    };
    let ps = pset(cfgj["pset"].as_str().unwrap());
    let s = Suite::new(&ps);
    let cfg = Cfg { msgs: cfgj["msgs"].as_array().unwrap().clone(), glk_all: cfgj["glk"].as_str().unwrap_or("default") == "all" };
    let names = Names {
        ct: cfgj["ct_slots"].as_array().unwrap().iter().map(|x| x.as_str().unwrap().to_string()).collect(),
        pt: cfgj["pt_slots"].as_array().unwrap().iter().map(|x| x.as_str().unwrap().to_string()).collect(),
    };
    let scales: Vec<i64> = cfgj["scales"].as_array().unwrap().iter().map(|x| x.as_i64().unwrap()).collect();
    let steps: Vec<i64> = cfgj["steps"].as_array().unwrap().iter().map(|x| x.as_i64().unwrap()).collect();
    let elts: Vec<u64> = cfgj["elts"].as_array().unwrap().iter().map(|x| x.as_u64().unwrap()).collect();
    let ckks = ps.scheme == SchemeType::CKKS;
    let nlev = s.level_ids.len() as i64;
    let mut rng = rand::rngs::StdRng::seed_from_u64(seed);
    let modes = ["pk", "pkd", "sk", "skseed"];
    let corruptions = ["residue", "parms", "size1", "size17", "scale", "cf", "buffer"];
    for _ in 0..nprogs {
        println!("{}", json!({"ev": "reset"}));
        let mut pool = Pool { slots: HashMap::new() };
        let mut last_was_product: Option<String> = None;
        // which secret key the driver believes a slot's ciphertext is under (it chose the encryptor)
        let mut key_of: HashMap<String, u64> = HashMap::new();
        for step_no in 0..len {
            if let Some(f) = &fixed {
                // replay mode: the calls are given
                let a = f[step_no]["act"].clone();
                let dst = f[step_no]["dst"].as_str().unwrap().to_string();
                run_call(&s, &cfg, &mut pool, &mut key_of, &mut last_was_product, a, dst);
                continue;
            }
            let have_ct = cts(&pool, &names);
            let have_pt = pts(&pool, &names);
            let mut a = act("encode");
            let mut dst_is_pt = false;
            let r = rng.gen_range(0..100);
            // a partner for a binary operation: mostly one on the same level and in the same representation
            let partner = |rng: &mut rand::rngs::StdRng, x: &str, pool: &Pool| -> String {
                let cx = ct_of(pool, x);
                let same: Vec<String> = have_ct.iter().filter(|n| { let c = ct_of(pool, n); c.parms_id() == cx.parms_id() && c.is_ntt_form() == cx.is_ntt_form() }).cloned().collect();
                if !same.is_empty() && rng.gen_range(0..10) < 8 { pick(rng, &same).clone() } else { pick(rng, &have_ct).clone() }
            };
            if have_pt.is_empty() || r < 10 {
                a = act("encode");
                a["m"] = json!(rng.gen_range(1..=cfg.msgs.len()));
                a["lvl"] = json!(if ckks { if rng.gen_range(0..3) > 0 { nlev - 1 } else { rng.gen_range(0..nlev) } } else { 0 });
                a["e"] = json!(if ckks { scales[rng.gen_range(0..scales.len())] } else { 0 });
                dst_is_pt = true;
            } else if have_ct.is_empty() || r < 22 {
                a = act(if r >= 19 { "encrypt_other" } else { "encrypt" });
                a["p"] = json!(pick(&mut rng, &have_pt));
                a["mode"] = json!(modes[rng.gen_range(0..4)]);
            } else if r < 23 {
                a = act("encrypt_zero");
                a["lvl"] = json!(rng.gen_range(0..nlev));
                a["mode"] = json!(modes[rng.gen_range(0..4)]);
            } else if r < 25 {
                // switch what is under the second key (mostly), or anything
                a = act("keyswitch");
                let other: Vec<String> = have_ct.iter().filter(|n| key_of.get(*n) == Some(&2)).cloned().collect();
                a["a"] = json!(if !other.is_empty() && rng.gen_range(0..10) < 9 { pick(&mut rng, &other).clone() } else { pick(&mut rng, &have_ct).clone() });
            } else if r < 26 {
                a = act("reload");
                a["a"] = json!(pick(&mut rng, &have_ct));
                a["mode"] = json!(if rng.gen_bool(0.5) { "compact" } else { "full" });
            } else if r < 27 {
                a = act("expand");
                let seeded: Vec<String> = have_ct.iter().filter(|n| is_seeded(ct_of(&pool, n))).cloned().collect();
                a["a"] = json!(if !seeded.is_empty() { pick(&mut rng, &seeded).clone() } else { pick(&mut rng, &have_ct).clone() });
            } else if r < 32 {
                a = act("decrypt");
                a["a"] = json!(pick(&mut rng, &have_ct));
                dst_is_pt = true;
            } else if r < 55 {
                let x = pick(&mut rng, &have_ct).clone();
                let y = partner(&mut rng, &x, &pool);
                a = act(["add", "sub", "multiply", "multiply", "add"][rng.gen_range(0..5)]);
                a["a"] = json!(x);
                a["b"] = json!(y);
            } else if r < 57 {
                // k-ary sum / product of 1..4 operands (mostly compatible ones, repetitions allowed)
                a = act(if rng.gen_bool(0.5) { "add_many" } else { "multiply_many" });
                let x = pick(&mut rng, &have_ct).clone();
                let k = rng.gen_range(1..=4);
                let mut ops = vec![x.clone()];
                for _ in 1..k {
                    ops.push(partner(&mut rng, &x, &pool));
                }
                a["ops"] = json!(ops);
            } else if r < 58 {
                a = act("square");
                a["a"] = json!(pick(&mut rng, &have_ct));
            } else if r < 65 {
                a = act("relinearize");
                let big: Vec<String> = have_ct.iter().filter(|n| ct_of(&pool, n).size() == 3).cloned().collect();
                a["a"] = json!(if !big.is_empty() && rng.gen_range(0..10) < 9 { pick(&mut rng, &big).clone() } else { pick(&mut rng, &have_ct).clone() });
            } else if r < 68 {
                a = act("negate");
                a["a"] = json!(pick(&mut rng, &have_ct));
            } else if r < 78 {
                a = act(["add_plain", "sub_plain", "multiply_plain"][rng.gen_range(0..3)]);
                a["a"] = json!(pick(&mut rng, &have_ct));
                a["p"] = json!(pick(&mut rng, &have_pt));
            } else if r < 81 {
                a = act(if rng.gen_bool(0.5) { "to_ntt" } else { "from_ntt" });
                a["a"] = json!(pick(&mut rng, &have_ct));
            } else if r < 83 {
                a = act("plain_to_ntt");
                a["p"] = json!(pick(&mut rng, &have_pt));
                a["lvl"] = json!(rng.gen_range(0..nlev));
                dst_is_pt = true;
            } else if r < 91 {
                // moving down the chain; a CKKS product is usually rescaled next
                let x = match &last_was_product {
                    Some(p) if ckks && rng.gen_range(0..10) < 8 && have_ct.contains(p) => p.clone(),
                    _ => pick(&mut rng, &have_ct).clone(),
                };
                let cur = s.level_of(ct_of(&pool, &x).parms_id()).map(|l| l as i64).unwrap_or(0);
                let k = rng.gen_range(0..10);
                if ckks && k < 5 {
                    a = act("rescale_next");
                } else if k < 7 {
                    a = act("mod_switch_next");
                } else if k < 9 {
                    a = act(if ckks && rng.gen_bool(0.5) { "rescale_to" } else { "mod_switch_to" });
                    a["lvl"] = json!(if rng.gen_range(0..10) < 8 { rng.gen_range(0..=cur.max(0)) } else { rng.gen_range(0..nlev) });
                } else {
                    a = act("rescale_next");
                }
                a["a"] = json!(x);
            } else if r < 93 {
                a = act(if rng.gen_bool(0.5) { "mod_switch_plain_next" } else { "mod_switch_plain_to" });
                a["p"] = json!(pick(&mut rng, &have_pt));
                a["lvl"] = json!(rng.gen_range(0..nlev));
                dst_is_pt = true;
            } else if r < 99 {
                let k = rng.gen_range(0..6);
                if k < 2 {
                    a = act("apply_galois");
                    a["g"] = json!(elts[rng.gen_range(0..elts.len())]);
                } else if k < 5 {
                    a = act("rotate");
                    a["s"] = json!(steps[rng.gen_range(0..steps.len())]);
                } else {
                    a = act("conjugate");
                }
                a["a"] = json!(pick(&mut rng, &have_ct));
            } else {
                a = act("corrupt");
                a["a"] = json!(pick(&mut rng, &have_ct));
                a["f"] = json!(corruptions[rng.gen_range(0..corruptions.len())]);
            }
            let op = a["op"].as_str().unwrap().to_string();
            // destination: the slot of the first operand (in-place style) or any slot of the right kind
            let dst = if op == "expand" || op == "corrupt" {
                a["a"].as_str().unwrap().to_string()
            } else if dst_is_pt {
                pick(&mut rng, &names.pt).clone()
            } else if !a["a"].as_str().unwrap().is_empty() && rng.gen_range(0..10) < 4 {
                a["a"].as_str().unwrap().to_string()
            } else {
                pick(&mut rng, &names.ct).clone()
            };
            run_call(&s, &cfg, &mut pool, &mut key_of, &mut last_was_product, a, dst);
        }
    }
}
