//! C12: record CKKS encoder behaviour (all entry points, all magnitude paths) for validation against Ckks.tla.
use crate::project::*;
use heathcliff::verif::polymod;
use heathcliff::*;
use num_complex::Complex;
use rand::{Rng, SeedableRng};
use serde_json::{json, Value};
use std::sync::Arc;

struct W {
    n: usize,
    ctx: Arc<HeContext>,
    enc: CKKSEncoder,
    ids: Vec<ParmsID>,
}

fn world(n: usize, bits: Vec<usize>) -> Option<W> {
    let parms = EncryptionParameters::new(SchemeType::CKKS).set_poly_modulus_degree(n).set_coeff_modulus(&CoeffModulus::create(n, bits));
    let ctx = HeContext::new(parms, true, SecurityLevel::None);
    if !ctx.parameters_set() {
        return None;
    }
    let mut ids = vec![];
    let mut cd = ctx.first_context_data();
    while let Some(c) = cd {
        ids.push(*c.parms_id());
        cd = c.next_context_data();
    }
    Some(W { n, enc: CKKSEncoder::new(ctx.clone()), ctx, ids })
}

fn emit(w: &W, entry: &str, structure: &str, lvl: usize, scale: f64, inputs: Vec<f64>, ints: Vec<i64>, r: Result<Plaintext, String>, cvals: Option<Vec<Complex<f64>>>) {
    let id = w.ids[lvl];
    let cd = w.ctx.get_context_data(&id).unwrap();
    let q: Vec<u64> = cd.parms().coeff_modulus().iter().map(|m| m.value()).collect();
    let mut e = json!({"ev": "ckks", "entry": entry, "structure": structure, "n": w.n, "q": q, "scale_bits": scale.to_bits().to_string(),
        "inputs": inputs.iter().map(|x| x.to_bits().to_string()).collect::<Vec<_>>(), "ints": ints, "refused": r.is_err()});
    if let Ok(p) = r {
        let k = q.len();
        let coef = guarded(|| {
            let mut d = p.data().clone();
            polymod::intt_p(&mut d, w.n, cd.small_ntt_tables());
            (0..w.n).map(|j| (0..k).map(|i| d[i * w.n + j]).collect::<Vec<u64>>()).collect::<Vec<_>>()
        });
        e["res"] = json!(coef.unwrap_or_default());
        e["scale_kept"] = json!(p.scale().to_bits() == scale.to_bits() || entry == "i64_single" && p.scale() == 1.0);
        e["level_ok"] = json!(*p.parms_id() == id);
        e["valid"] = json!(p.is_valid_for(&w.ctx));
        // decode and compare with the input (2^-20 units, saturating)
        let dev = guarded(|| {
            let mut worst = 0f64;
            if entry == "poly" {
                let d = w.enc.decode_polynomial_new(&p);
                for (i, v) in d.iter().enumerate() {
                    let want = if i < inputs.len() { inputs[i] } else { 0.0 };
                    worst = worst.max((v - want).abs());
                }
            } else {
                let d = w.enc.decode_new(&p);
                for (i, z) in d.iter().enumerate() {
                    let want = match &cvals {
                        Some(c) => {
                            if i < c.len() {
                                c[i]
                            } else {
                                Complex::new(0.0, 0.0)
                            }
                        }
                        None => Complex::new(if entry == "i64_single" { ints[0] as f64 } else { inputs[0] }, 0.0),
                    };
                    worst = worst.max((z - want).norm());
                }
            }
            let u = worst * 1048576.0;
            if u.is_finite() && u < 9e17 {
                u.ceil() as i64
            } else {
                i64::MAX / 4
            }
        });
        e["dec_dev"] = json!(dev.unwrap_or(i64::MAX / 4));
    }
    println!("{}", e);
}

/// The embedding is multiplicative: the negacyclic product (formed here in floating point) of the coefficient vectors of
/// encode(u) and encode(v) decodes to the slot-wise product u.v - for small Gaussian-integer slot vectors, in units of 2^-10.
fn embed_mul(n: usize, rng: &mut impl Rng) {
    let w = match world(n, vec![60, 60]) {
        Some(w) => w,
        None => return,
    };
    let slots = n / 2;
    let scale = 2f64.powi(30);
    let gi = |rng: &mut dyn rand::RngCore| -> Complex<f64> { Complex::new((rng.next_u32() % 9) as f64 - 4.0, (rng.next_u32() % 9) as f64 - 4.0) };
    for rep in 0..3 {
        let u: Vec<Complex<f64>> = (0..slots).map(|i| if rep == 0 { Complex::new(if i % 2 == 0 { 1.0 } else { -2.0 }, i as f64 % 3.0) } else { gi(rng) }).collect();
        let v: Vec<Complex<f64>> = (0..slots).map(|_| gi(rng)).collect();
        let out = guarded(|| {
            let cu = w.enc.decode_polynomial_new(&w.enc.encode_c64_array_new(&u, None, scale));
            let cv = w.enc.decode_polynomial_new(&w.enc.encode_c64_array_new(&v, None, scale));
            let mut cw = vec![0f64; n];
            for i in 0..n {
                for j in 0..n {
                    if i + j < n {
                        cw[i + j] += cu[i] * cv[j];
                    } else {
                        cw[i + j - n] -= cu[i] * cv[j];
                    }
                }
            }
            w.enc.decode_new(&w.enc.encode_f64_polynomial_new(&cw, None, scale))
        });
        let units = |z: &Complex<f64>| -> Vec<i64> { vec![(z.re * 1024.0).round() as i64, (z.im * 1024.0).round() as i64] };
        let exp: Vec<Vec<i64>> = u.iter().zip(v.iter()).map(|(a, b)| units(&(a * b))).collect();
        let mut e = json!({"ev": "ckks_mul", "n": n, "exp": exp, "tol": 8});
        match out {
            Ok(d) => e["got"] = json!(d.iter().map(units).collect::<Vec<_>>()),
            Err(m) => {
                e["got"] = json!(vec![vec![1i64 << 30, 0]; slots]);
                e["panic"] = json!(m);
            }
        }
        println!("{}", e);
    }
}

pub fn main(args: &[String]) {
    silence_panics();
    let quick = args[0] == "quick";
    let seed: u64 = args[1].parse().unwrap();
    let mut rng = rand::rngs::StdRng::seed_from_u64(seed);
    for n in if quick { vec![4usize, 8, 64, 256] } else { vec![2usize, 4, 8, 16, 32, 64, 128, 256, 512, 1024, 2048] } {
        embed_mul(n, &mut rng);
    }
    let mut sets: Vec<(usize, Vec<usize>)> = vec![(2, vec![40, 40, 40]), (8, vec![40, 40, 40, 40]), (8, vec![60, 60, 60, 60, 60]), (16, vec![30, 50, 60, 40])];
    if !quick {
        sets.extend([(8, vec![60; 9]), (4, vec![20, 25, 30]), (64, vec![50, 50, 50]), (8, vec![50; 19]), (1024, vec![40, 40, 40])]);
    }
    for (n, bits) in sets {
        let total: usize = bits[..bits.len() - 1].iter().sum();
        let w = match world(n, bits.clone()) {
            Some(w) => w,
            None => continue,
        };
        let slots = n / 2;
        for lvl in 0..w.ids.len() {
            let lvl_bits: usize = bits[..bits.len() - 1 - lvl].iter().sum();
            let id = w.ids[lvl];
            // scales landing in each magnitude path, plus invalid ones
            let mut scales: Vec<f64> = vec![1.0, 2f64.powi(20), 2f64.powi(40), 2f64.powi(58), 2f64.powi(70), 2f64.powi(100), 2f64.powi(135), 2f64.powi(lvl_bits as i32 - 6),
                                            2f64.powi(lvl_bits as i32 + 3), 0.0, -4.0, 3.0 * 2f64.powi(33)];
            scales.retain(|s| *s <= 0.0 || s.log2() < (total + 8) as f64);
            if quick {
                scales.retain(|s| ![2f64.powi(20), 2f64.powi(100)].contains(s));
            }
            for &scale in &scales {
                let mags: Vec<f64> = vec![0.0, 1.0, -3.0, 5.5, -1048576.0, 1e12, -1e18, 0.37];
                for (mi, &v) in mags.iter().enumerate() {
                    if quick && mi % 2 == 1 && mi != 1 {
                        continue;
                    }
                    // single real
                    emit(&w, "f64_single", "single", lvl, scale, vec![v], vec![], guarded(|| w.enc.encode_f64_single_new(v, Some(id), scale)), None);
                    // constant vector (preimage = constant polynomial)
                    let cv = vec![Complex::new(v, 0.0); slots];
                    emit(&w, "vector", "const", lvl, scale, vec![v], vec![], guarded(|| w.enc.encode_c64_array_new(&cv, Some(id), scale)), Some(cv.clone()));
                    // the purely imaginary alternating vector (preimage = v * X^(N/2))
                    if n >= 4 {
                        let av: Vec<Complex<f64>> = (0..slots).map(|i| Complex::new(0.0, if i % 2 == 0 { v } else { -v })).collect();
                        emit(&w, "vector", "alt", lvl, scale, vec![v], vec![], guarded(|| w.enc.encode_c64_array_new(&av, Some(id), scale)), Some(av.clone()));
                    }
                    // complex single
                    let z = Complex::new(v, -v / 2.0);
                    emit(&w, "c64_single", if n == 2 { "n2" } else { "csingle" }, lvl, scale, vec![z.re, z.im], vec![], guarded(|| w.enc.encode_c64_single_new(z, Some(id), scale)), Some(vec![z; slots]));
                }
                // coefficient lists: short, full, mixed signs and magnitudes
                for list in [vec![3.0, -2.0], vec![0.0, 0.0, 1.0], (0..n).map(|i| (i as f64) - 2.5).collect::<Vec<_>>(), vec![-1e9, 1e-3, 7.0]] {
                    if list.len() > n {
                        continue;
                    }
                    emit(&w, "poly", "poly", lvl, scale, list.clone(), vec![], guarded(|| w.enc.encode_f64_polynomial_new(&list, Some(id), scale)), None);
                }
                // random vectors (consistency and decode only)
                let rv: Vec<Complex<f64>> = (0..slots).map(|_| Complex::new(rng.gen_range(-100.0..100.0), rng.gen_range(-100.0..100.0))).collect();
                let short = rv[..slots.div_ceil(2)].to_vec();
                emit(&w, "vector", "random", lvl, scale, vec![100.0], vec![], guarded(|| w.enc.encode_c64_array_new(&rv, Some(id), scale)), Some(rv.clone()));
                emit(&w, "vector", "random", lvl, scale, vec![100.0], vec![], guarded(|| w.enc.encode_c64_array_new(&short, Some(id), scale)), Some(short.clone()));
            }
            // integers: small, negative, larger than a prime, near the modulus
            for v in [0i64, 1, -5, 1 << 20, -(1 << 20), (1 << 45) + 7, -(1i64 << 45), i64::MAX / 3, -(i64::MAX / 3), 1 << 62] {
                emit(&w, "i64_single", "i64", lvl, 1.0, vec![], vec![v], guarded(|| w.enc.encode_i64_single_new(v, Some(id))), None);
            }
            // the destination-argument forms reuse an old plaintext
            // (a scale of 2^20 does not fit the smallest levels of the long chains: then there is nothing to re-use)
            let mut dest = match guarded(|| w.enc.encode_f64_polynomial_new(&(0..n).map(|i| i as f64 + 1.0).collect::<Vec<_>>(), Some(id), 2f64.powi(20))) {
                Ok(d) => d,
                Err(_) => continue,
            };
            let short = vec![2.0, -1.0];
            let r = guarded(|| w.enc.encode_f64_polynomial(&short, Some(id), 2f64.powi(20), &mut dest));
            emit(&w, "poly", "poly", lvl, 2f64.powi(20), short.clone(), vec![], r.map(|_| dest.clone()), None);
            let cvv = vec![Complex::new(2.0, 1.0)];
            let r = guarded(|| w.enc.encode_c64_array(&cvv, Some(id), 2f64.powi(20), &mut dest));
            emit(&w, "vector", "random", lvl, 2f64.powi(20), vec![3.0], vec![], r.map(|_| dest.clone()), Some(cvv.clone()));
        }
    }
}
