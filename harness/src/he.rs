//! Binding of HE.tla to the real Encryptor / Evaluator / Decryptor (C01-C07).
//!
//! `exec_step` executes one action of the specification on real objects, in all three API forms
//! where the library offers them, and reports what happened.  `replay` steps TLC-generated behaviours
//! through it and compares with the expected projection; `drive` generates random programs and records
//! the observed projections for trace validation.
use crate::project::*;
use crate::psets::*;
use heathcliff::*;
use num_complex::Complex;
use serde_json::{json, Value};
use std::collections::HashMap;

#[derive(Clone)]
pub enum Obj {
    Ct(Ciphertext),
    Pt(Plaintext),
}

pub struct Pool {
    pub slots: HashMap<String, Obj>,
}

pub struct Cfg {
    pub msgs: Vec<Value>,
    pub glk_all: bool,
}

pub enum Outcome {
    Ret(Obj),
    Refused(String),
}

pub struct StepRes {
    pub outcome: Outcome,
    /// None when the forms agree (or only one form exists); Some(description) otherwise
    pub forms_problem: Option<String>,
}

fn get_ct<'a>(pool: &'a Pool, name: &str) -> Option<&'a Ciphertext> {
    match pool.slots.get(name) {
        Some(Obj::Ct(c)) => Some(c),
        _ => None,
    }
}
fn get_pt<'a>(pool: &'a Pool, name: &str) -> Option<&'a Plaintext> {
    match pool.slots.get(name) {
        Some(Obj::Pt(p)) => Some(p),
        _ => None,
    }
}

/// run the three API forms of a ciphertext-producing operation and compare them
thread_local! {
    /// previous content of the destination slot: the destination-argument forms are handed a used object
    static PRIOR_CT: std::cell::RefCell<Option<Ciphertext>> = std::cell::RefCell::new(None);
    static PRIOR_PT: std::cell::RefCell<Option<Plaintext>> = std::cell::RefCell::new(None);
}
fn prior_ct() -> Ciphertext {
    PRIOR_CT.with(|p| p.borrow().clone()).unwrap_or_else(Ciphertext::new)
}
fn prior_pt() -> Plaintext {
    PRIOR_PT.with(|p| p.borrow().clone()).unwrap_or_else(Plaintext::new)
}

fn forms_ct(
    new: impl FnOnce() -> Ciphertext,
    dest: impl FnOnce(&mut Ciphertext),
    inplace: Option<Box<dyn FnOnce() -> Ciphertext + '_>>,
) -> StepRes {
    let r_new = guarded(new);
    let r_dest = guarded(|| {
        let mut d = prior_ct();
        dest(&mut d);
        d
    });
    let r_inpl = inplace.map(|f| guarded(f));
    let mut problem = None;
    match (&r_new, &r_dest) {
        (Ok(a), Ok(b)) => {
            if !ct_bytes_eq(a, b) {
                problem = Some(format!("value-returning and destination forms differ: {}", ct_diff(a, b)));
            }
        }
        (Err(_), Err(_)) => {}
        (Ok(_), Err(e)) => problem = Some(format!("destination form refused ({}) but value-returning form returned", e)),
        (Err(e), Ok(_)) => problem = Some(format!("value-returning form refused ({}) but destination form returned", e)),
    }
    if let Some(r_inpl) = &r_inpl {
        match (&r_new, r_inpl) {
            (Ok(a), Ok(b)) => {
                if !ct_bytes_eq(a, b) {
                    problem = Some(format!("value-returning and in-place forms differ: {}", ct_diff(a, b)));
                }
            }
            (Err(_), Err(_)) => {}
            (Ok(_), Err(e)) => problem = Some(format!("in-place form refused ({}) but value-returning form returned", e)),
            (Err(e), Ok(_)) => problem = Some(format!("value-returning form refused ({}) but in-place form returned", e)),
        }
    }
    StepRes {
        outcome: match r_new {
            Ok(c) => Outcome::Ret(Obj::Ct(c)),
            Err(e) => Outcome::Refused(e),
        },
        forms_problem: problem,
    }
}

fn forms_pt(
    new: impl FnOnce() -> Plaintext,
    dest: impl FnOnce(&mut Plaintext),
    inplace: Option<Box<dyn FnOnce() -> Plaintext + '_>>,
) -> StepRes {
    let r_new = guarded(new);
    let r_dest = guarded(|| {
        let mut d = prior_pt();
        dest(&mut d);
        d
    });
    let r_inpl = inplace.map(|f| guarded(f));
    let mut problem = None;
    match (&r_new, &r_dest) {
        (Ok(a), Ok(b)) => {
            if !pt_bytes_eq(a, b) {
                problem = Some("value-returning and destination forms differ".to_string());
            }
        }
        (Err(_), Err(_)) => {}
        (Ok(_), Err(e)) => problem = Some(format!("destination form refused ({}) but value-returning form returned", e)),
        (Err(e), Ok(_)) => problem = Some(format!("value-returning form refused ({}) but destination form returned", e)),
    }
    if let Some(r_inpl) = &r_inpl {
        match (&r_new, r_inpl) {
            (Ok(a), Ok(b)) => {
                if !pt_bytes_eq(a, b) {
                    problem = Some("value-returning and in-place forms differ".to_string());
                }
            }
            (Err(_), Err(_)) => {}
            (Ok(_), Err(e)) => problem = Some(format!("in-place form refused ({}) but value-returning form returned", e)),
            (Err(e), Ok(_)) => problem = Some(format!("value-returning form refused ({}) but in-place form returned", e)),
        }
    }
    StepRes {
        outcome: match r_new {
            Ok(c) => Outcome::Ret(Obj::Pt(c)),
            Err(e) => Outcome::Refused(e),
        },
        forms_problem: problem,
    }
}

fn single(r: Result<Obj, String>) -> StepRes {
    StepRes {
        outcome: match r {
            Ok(o) => Outcome::Ret(o),
            Err(e) => Outcome::Refused(e),
        },
        forms_problem: None,
    }
}

pub fn msg_plain(s: &Suite, cfg: &Cfg, m: usize, lvl: usize, e: i64) -> Plaintext {
    let msg = &cfg.msgs[m - 1];
    if s.ps.scheme == SchemeType::CKKS {
        let vals: Vec<Complex<f64>> = msg
            .as_array()
            .unwrap()
            .iter()
            .map(|z| Complex::new(z[0].as_i64().unwrap() as f64, z[1].as_i64().unwrap() as f64))
            .collect();
        s.ckks.as_ref().unwrap().encode_c64_array_new(&vals, Some(s.level_ids[lvl]), 2f64.powi(e as i32))
    } else {
        let vals: Vec<u64> = msg.as_array().unwrap().iter().map(|x| x.as_i64().unwrap().rem_euclid(s.ps.t as i64) as u64).collect();
        s.batch.as_ref().unwrap().encode_polynomial_new(&vals)
    }
}

fn corrupt(s: &Suite, c: &Ciphertext, f: &str) -> Ciphertext {
    let mut c = c.clone();
    match f {
        "residue" => {
            let lvl = s.level_of(c.parms_id()).unwrap_or(0);
            let q = s.moduli_at(lvl)[0];
            c.data_mut()[0] = q;
        }
        "parms" => c.set_parms_id(*s.ctx.key_parms_id()),
        "size1" => {
            let k = c.coeff_modulus_size();
            let n = c.poly_modulus_degree();
            c = Ciphertext::from_members(1, k, n, c.data()[..k * n].to_vec(), *c.parms_id(), c.scale(), c.correction_factor(), c.is_ntt_form());
        }
        "size17" => {
            let k = c.coeff_modulus_size();
            let n = c.poly_modulus_degree();
            let mut d = c.data().clone();
            d.resize(17 * k * n, 0);
            c = Ciphertext::from_members(17, k, n, d, *c.parms_id(), c.scale(), c.correction_factor(), c.is_ntt_form());
        }
        "scale" => {
            if s.ps.scheme == SchemeType::CKKS {
                c.set_scale(0.0)
            } else {
                c.set_scale(2.0)
            }
        }
        "cf" => {
            if s.ps.scheme == SchemeType::BGV {
                c.set_correction_factor(0)
            } else {
                c.set_correction_factor(2)
            }
        }
        "buffer" => {
            c.data_mut().pop();
        }
        _ => panic!("unknown corruption {}", f),
    }
    c
}

/// Execute one specification action against the real library.  Returns None when an operand handle
/// has the wrong kind for the action (the specification leaves those unconstrained).
pub fn exec_step(s: &Suite, cfg: &Cfg, pool: &Pool, act: &Value, dst: &str) -> Option<StepRes> {
    PRIOR_CT.with(|p| *p.borrow_mut() = get_ct(pool, dst).cloned());
    PRIOR_PT.with(|p| *p.borrow_mut() = get_pt(pool, dst).cloned());
    let op = act["op"].as_str().unwrap();
    let ev = &s.evaluator;
    let a_name = act["a"].as_str().unwrap_or("");
    let b_name = act["b"].as_str().unwrap_or("");
    let p_name = act["p"].as_str().unwrap_or("");
    let lvl = act["lvl"].as_i64().unwrap_or(0);
    let glk = if cfg.glk_all { &s.glk_all } else { &s.glk_default };
    let res = match op {
        "encode" => {
            let m = act["m"].as_u64().unwrap() as usize;
            let e = act["e"].as_i64().unwrap();
            single(guarded(|| Obj::Pt(msg_plain(s, cfg, m, lvl as usize, e))))
        }
        "encrypt" => {
            let p = get_pt(pool, p_name)?;
            match act["mode"].as_str().unwrap() {
                // encryption is randomised, so the forms cannot be compared byte-wise: each form is its own mode
                "pk" => single(guarded(|| Obj::Ct(s.encryptor.encrypt_new(p)))),
                "pkd" => single(guarded(|| {
                    let mut d = prior_ct();
                    s.encryptor.encrypt(p, &mut d);
                    Obj::Ct(d)
                })),
                "sk" => single(guarded(|| {
                    let mut d = prior_ct();
                    s.encryptor.encrypt_symmetric(p, &mut d);
                    Obj::Ct(d)
                })),
                // the value-returning symmetric form keeps the seed
                _ => single(guarded(|| Obj::Ct(s.encryptor.encrypt_symmetric_new(p)))),
            }
        }
        "encrypt_other" => {
            // encryption under the second secret key of the context (C04: the operand of a key switch)
            let p = get_pt(pool, p_name)?;
            match act["mode"].as_str().unwrap() {
                "pk" => single(guarded(|| Obj::Ct(s.encryptor2.encrypt_new(p)))),
                "pkd" => single(guarded(|| {
                    let mut d = prior_ct();
                    s.encryptor2.encrypt(p, &mut d);
                    Obj::Ct(d)
                })),
                "sk" => single(guarded(|| {
                    let mut d = prior_ct();
                    s.encryptor2.encrypt_symmetric(p, &mut d);
                    Obj::Ct(d)
                })),
                _ => single(guarded(|| Obj::Ct(s.encryptor2.encrypt_symmetric_new(p)))),
            }
        }
        "reload" => {
            // serialization round trip in the given format; the restored object replaces / is compared with the original
            let a = get_ct(pool, a_name)?;
            let full = act["mode"].as_str().unwrap_or("compact") == "full";
            single(guarded(|| {
                let mut buf: Vec<u8> = vec![];
                if full {
                    a.serialize_full(&s.ctx, &mut buf).unwrap();
                    Obj::Ct(Ciphertext::deserialize_full(&s.ctx, &mut buf.as_slice()).unwrap())
                } else {
                    SerializableWithHeContext::serialize(a, &s.ctx, &mut buf).unwrap();
                    Obj::Ct(<Ciphertext as SerializableWithHeContext>::deserialize(&s.ctx, &mut buf.as_slice()).unwrap())
                }
            }))
        }
        "keyswitch" => {
            let a = get_ct(pool, a_name)?;
            forms_ct(
                || ev.apply_keyswitching_new(a, &s.ksk),
                |d| ev.apply_keyswitching(a, &s.ksk, d),
                Some(Box::new(|| {
                    let mut x = a.clone();
                    ev.apply_keyswitching_inplace(&mut x, &s.ksk);
                    x
                })),
            )
        }
        "encrypt_zero" => {
            let id = s.level_ids[lvl as usize];
            match act["mode"].as_str().unwrap() {
                "pk" => single(guarded(|| Obj::Ct(s.encryptor.encrypt_zero_new_at(&id)))),
                "pkd" => single(guarded(|| {
                    let mut d = prior_ct();
                    s.encryptor.encrypt_zero_at(&id, &mut d);
                    Obj::Ct(d)
                })),
                "sk" => single(guarded(|| {
                    let mut d = prior_ct();
                    s.encryptor.encrypt_zero_symmetric_at(&id, &mut d);
                    Obj::Ct(d)
                })),
                _ => single(guarded(|| Obj::Ct(s.encryptor.encrypt_zero_symmetric_new_at(&id)))),
            }
        }
        "expand" => {
            let a = get_ct(pool, a_name)?;
            single(guarded(|| Obj::Ct(a.clone().expand_seed(&s.ctx))))
        }
        "decrypt" => {
            let a = get_ct(pool, a_name)?;
            forms_pt(|| s.decryptor.decrypt_new(a), |d| s.decryptor.decrypt(a, d), None)
        }
        "negate" => {
            let a = get_ct(pool, a_name)?;
            forms_ct(
                || ev.negate_new(a),
                |d| ev.negate(a, d),
                Some(Box::new(|| {
                    let mut x = a.clone();
                    ev.negate_inplace(&mut x);
                    x
                })),
            )
        }
        "add" | "sub" | "multiply" => {
            let a = get_ct(pool, a_name)?;
            let b = get_ct(pool, b_name)?;
            match op {
                "add" => forms_ct(
                    || ev.add_new(a, b),
                    |d| ev.add(a, b, d),
                    Some(Box::new(|| {
                        let mut x = a.clone();
                        ev.add_inplace(&mut x, b);
                        x
                    })),
                ),
                "sub" => forms_ct(
                    || ev.sub_new(a, b),
                    |d| ev.sub(a, b, d),
                    Some(Box::new(|| {
                        let mut x = a.clone();
                        ev.sub_inplace(&mut x, b);
                        x
                    })),
                ),
                _ => forms_ct(
                    || ev.multiply_new(a, b),
                    |d| ev.multiply(a, b, d),
                    Some(Box::new(|| {
                        let mut x = a.clone();
                        ev.multiply_inplace(&mut x, b);
                        x
                    })),
                ),
            }
        }
        "add_many" | "multiply_many" => {
            // k-ary forms: operands are the slots listed in act.ops (repetitions allowed)
            let mut ops: Vec<Ciphertext> = vec![];
            for n in act["ops"].as_array().unwrap() {
                ops.push(get_ct(pool, n.as_str().unwrap())?.clone());
            }
            if op == "add_many" {
                forms_ct(|| ev.add_many_new(&ops), |d| ev.add_many(&ops, d), None)
            } else {
                forms_ct(
                    || {
                        let mut d = Ciphertext::new();
                        ev.multiply_many(&ops, &s.rlk, &mut d);
                        d
                    },
                    |d| ev.multiply_many(&ops, &s.rlk, d),
                    None,
                )
            }
        }
        "square" => {
            let a = get_ct(pool, a_name)?;
            forms_ct(
                || ev.square_new(a),
                |d| ev.square(a, d),
                Some(Box::new(|| {
                    let mut x = a.clone();
                    ev.square_inplace(&mut x);
                    x
                })),
            )
        }
        "relinearize" => {
            let a = get_ct(pool, a_name)?;
            forms_ct(
                || ev.relinearize_new(a, &s.rlk),
                |d| ev.relinearize(a, &s.rlk, d),
                Some(Box::new(|| {
                    let mut x = a.clone();
                    ev.relinearize_inplace(&mut x, &s.rlk);
                    x
                })),
            )
        }
        "add_plain" | "sub_plain" | "multiply_plain" => {
            let a = get_ct(pool, a_name)?;
            let p = get_pt(pool, p_name)?;
            match op {
                "add_plain" => forms_ct(
                    || ev.add_plain_new(a, p),
                    |d| ev.add_plain(a, p, d),
                    Some(Box::new(|| {
                        let mut x = a.clone();
                        ev.add_plain_inplace(&mut x, p);
                        x
                    })),
                ),
                "sub_plain" => forms_ct(
                    || ev.sub_plain_new(a, p),
                    |d| ev.sub_plain(a, p, d),
                    Some(Box::new(|| {
                        let mut x = a.clone();
                        ev.sub_plain_inplace(&mut x, p);
                        x
                    })),
                ),
                _ => forms_ct(
                    || ev.multiply_plain_new(a, p),
                    |d| ev.multiply_plain(a, p, d),
                    Some(Box::new(|| {
                        let mut x = a.clone();
                        ev.multiply_plain_inplace(&mut x, p);
                        x
                    })),
                ),
            }
        }
        "to_ntt" => {
            let a = get_ct(pool, a_name)?;
            forms_ct(
                || ev.transform_to_ntt_new(a),
                |d| ev.transform_to_ntt(a, d),
                Some(Box::new(|| {
                    let mut x = a.clone();
                    ev.transform_to_ntt_inplace(&mut x);
                    x
                })),
            )
        }
        "from_ntt" => {
            let a = get_ct(pool, a_name)?;
            forms_ct(
                || ev.transform_from_ntt_new(a),
                |d| ev.transform_from_ntt(a, d),
                Some(Box::new(|| {
                    let mut x = a.clone();
                    ev.transform_from_ntt_inplace(&mut x);
                    x
                })),
            )
        }
        "plain_to_ntt" => {
            let p = get_pt(pool, p_name)?;
            let id = s.level_ids[lvl as usize];
            forms_pt(
                || ev.transform_plain_to_ntt_new(p, &id),
                |d| ev.transform_plain_to_ntt(p, &id, d),
                Some(Box::new(move || {
                    let mut x = p.clone();
                    ev.transform_plain_to_ntt_inplace(&mut x, &id);
                    x
                })),
            )
        }
        "mod_switch_next" => {
            let a = get_ct(pool, a_name)?;
            forms_ct(
                || ev.mod_switch_to_next_new(a),
                |d| ev.mod_switch_to_next(a, d),
                Some(Box::new(|| {
                    let mut x = a.clone();
                    ev.mod_switch_to_next_inplace(&mut x);
                    x
                })),
            )
        }
        "mod_switch_to" => {
            let a = get_ct(pool, a_name)?;
            let id = s.level_ids[lvl as usize];
            forms_ct(
                || ev.mod_switch_to_new(a, &id),
                |d| ev.mod_switch_to(a, &id, d),
                Some(Box::new(move || {
                    let mut x = a.clone();
                    ev.mod_switch_to_inplace(&mut x, &id);
                    x
                })),
            )
        }
        "rescale_next" => {
            let a = get_ct(pool, a_name)?;
            forms_ct(
                || ev.rescale_to_next_new(a),
                |d| ev.rescale_to_next(a, d),
                Some(Box::new(|| {
                    let mut x = a.clone();
                    ev.rescale_to_next_inplace(&mut x);
                    x
                })),
            )
        }
        "rescale_to" => {
            let a = get_ct(pool, a_name)?;
            let id = s.level_ids[lvl as usize];
            forms_ct(
                || ev.rescale_to_new(a, &id),
                |d| ev.rescale_to(a, &id, d),
                Some(Box::new(move || {
                    let mut x = a.clone();
                    ev.rescale_to_inplace(&mut x, &id);
                    x
                })),
            )
        }
        "mod_switch_plain_next" => {
            let p = get_pt(pool, p_name)?;
            forms_pt(
                || ev.mod_switch_to_next_plain_new(p),
                |d| ev.mod_switch_to_next_plain(p, d),
                Some(Box::new(|| {
                    let mut x = p.clone();
                    ev.mod_switch_to_next_plain_inplace(&mut x);
                    x
                })),
            )
        }
        "mod_switch_plain_to" => {
            let p = get_pt(pool, p_name)?;
            let id = s.level_ids[lvl as usize];
            forms_pt(
                || ev.mod_switch_plain_to_new(p, &id),
                |d| ev.mod_switch_plain_to(p, &id, d),
                Some(Box::new(move || {
                    let mut x = p.clone();
                    ev.mod_switch_plain_to_inplace(&mut x, &id);
                    x
                })),
            )
        }
        "apply_galois" => {
            let a = get_ct(pool, a_name)?;
            let g = act["g"].as_u64().unwrap() as usize;
            forms_ct(
                || ev.apply_galois_new(a, g, glk),
                |d| ev.apply_galois(a, g, glk, d),
                Some(Box::new(move || {
                    let mut x = a.clone();
                    ev.apply_galois_inplace(&mut x, g, glk);
                    x
                })),
            )
        }
        "rotate" => {
            let a = get_ct(pool, a_name)?;
            let st = act["s"].as_i64().unwrap() as isize;
            if s.ps.scheme == SchemeType::CKKS {
                forms_ct(
                    || ev.rotate_vector_new(a, st, glk),
                    |d| ev.rotate_vector(a, st, glk, d),
                    Some(Box::new(move || {
                        let mut x = a.clone();
                        ev.rotate_vector_inplace(&mut x, st, glk);
                        x
                    })),
                )
            } else {
                forms_ct(
                    || ev.rotate_rows_new(a, st, glk),
                    |d| ev.rotate_rows(a, st, glk, d),
                    Some(Box::new(move || {
                        let mut x = a.clone();
                        ev.rotate_rows_inplace(&mut x, st, glk);
                        x
                    })),
                )
            }
        }
        "conjugate" => {
            let a = get_ct(pool, a_name)?;
            if s.ps.scheme == SchemeType::CKKS {
                forms_ct(
                    || ev.complex_conjugate_new(a, glk),
                    |d| ev.complex_conjugate(a, glk, d),
                    Some(Box::new(|| {
                        let mut x = a.clone();
                        ev.complex_conjugate_inplace(&mut x, glk);
                        x
                    })),
                )
            } else {
                forms_ct(
                    || ev.rotate_columns_new(a, glk),
                    |d| ev.rotate_columns(a, glk, d),
                    Some(Box::new(|| {
                        let mut x = a.clone();
                        ev.rotate_columns_inplace(&mut x, glk);
                        x
                    })),
                )
            }
        }
        "corrupt" => {
            let a = get_ct(pool, a_name)?;
            let f = act["f"].as_str().unwrap();
            single(guarded(|| Obj::Ct(corrupt(s, a, f))))
        }
        _ => panic!("unknown op {}", op),
    };
    Some(res)
}

/// Observed projection of an object, including the decrypted / decoded value when it can be obtained.
pub fn observe(s: &Suite, o: &Obj, want_value: bool) -> Value {
    observe_under(s, o, want_value, 1)
}

/// `key` = 2: the ciphertext is (according to the caller) under the second secret key; its value is read with that key
pub fn observe_under(s: &Suite, o: &Obj, want_value: bool, key: u64) -> Value {
    let decryptor = if key == 2 { &s.decryptor2 } else { &s.decryptor };
    match o {
        Obj::Ct(c) => {
            let mut j = project_ct(s, c);
            j["valid"] = json!(guarded(|| c.is_valid_for(&s.ctx)).unwrap_or(false));
            j["ivalid"] = json!(independent_valid_ct(s, c).is_ok());
            if want_value && !is_seeded(c) {
                if let Ok(v) = value_of_ct_with(s, c, decryptor) {
                    j["val"] = val_json(&v);
                }
                if s.ps.scheme != SchemeType::CKKS {
                    let budget = guarded(|| {
                        let mut x = c.clone();
                        if x.is_ntt_form() {
                            s.evaluator.transform_from_ntt_inplace(&mut x);
                        }
                        decryptor.invariant_noise_budget(&x)
                    });
                    if let Ok(b) = budget {
                        j["budget"] = json!(b);
                    }
                }
            }
            j
        }
        Obj::Pt(p) => {
            let mut j = project_pt(s, p);
            j["valid"] = json!(guarded(|| p.is_valid_for(&s.ctx)).unwrap_or(false));
            j["ivalid"] = json!(independent_valid_pt(s, p).is_ok());
            if want_value {
                // an NTT-form BFV/BGV plaintext has no direct decoder; its value is checked through later use
                if s.ps.scheme == SchemeType::CKKS || !p.is_ntt_form() {
                    if let Ok(v) = value_of_plain(s, p) {
                        j["val"] = val_json(&v);
                    }
                }
            }
            j
        }
    }
}

/// Compare an observed object with the projection the specification expects.
/// Ok(true) = matches; Ok(false) = allowed divergence (stop checking this behaviour); Err = violation.
pub fn compare(s: &Suite, exp: &Value, o: &Obj) -> Result<bool, String> {
    let obs = observe_under(s, o, exp["cmp"].as_bool().unwrap_or(false), exp["key"].as_u64().unwrap_or(1));
    let kind = exp["kind"].as_str().unwrap();
    if obs["kind"].as_str().unwrap() != kind {
        return Err(format!("kind {} expected {}", obs["kind"], kind));
    }
    if exp["valid"].as_bool().unwrap_or(true) {
        // a seed-compressed ciphertext is by design not usable (and not "valid") until it is expanded
        let seeded_exp = kind == "ct" && exp["seeded"].as_bool().unwrap_or(false);
        if !seeded_exp && !obs["valid"].as_bool().unwrap() {
            return Err("result is not valid for the context (is_valid_for)".into());
        }
        if !obs["ivalid"].as_bool().unwrap() {
            let why = match o {
                Obj::Ct(c) => independent_valid_ct(s, c).err().unwrap_or_default(),
                Obj::Pt(p) => independent_valid_pt(s, p).err().unwrap_or_default(),
            };
            return Err(format!("result fails the independent validity predicate: {}", why));
        }
    } else {
        return Ok(true); // corrupted on purpose: nothing else to compare
    }
    for f in ["lvl", "ntt"] {
        if kind == "pt" && f == "lvl" && !exp["ntt"].as_bool().unwrap() {
            continue;
        }
        if obs[f] != exp[f] {
            return Err(format!("{}: observed {} expected {}", f, obs[f], exp[f]));
        }
    }
    if kind == "ct" {
        for f in ["size", "seeded"] {
            if obs[f] != exp[f] {
                return Err(format!("{}: observed {} expected {}", f, obs[f], exp[f]));
            }
        }
        if obs["cf"] != exp["cf"] {
            if exp["cfany"].as_bool().unwrap_or(false) {
                let cf = obs["cf"].as_u64().unwrap();
                if cf == 0 || cf >= s.ps.t {
                    return Err(format!("correction factor {} out of range", cf));
                }
                return Ok(false);
            }
            return Err(format!("cf: observed {} expected {}", obs["cf"], exp["cf"]));
        }
    }
    // scale: bit-exact against the IEEE evaluation of the expression the specification carries
    let want = eval_scale(s, exp["sc"].as_str().unwrap());
    let got: u64 = obs["scale_bits"].as_str().unwrap().parse().unwrap();
    if want.to_bits() != got {
        return Err(format!("scale: observed {:e} expected {:e} ({})", f64::from_bits(got), want, exp["sc"]));
    }
    if exp["cmp"].as_bool().unwrap_or(false) && !(kind == "pt" && s.ps.scheme != SchemeType::CKKS && exp["ntt"].as_bool().unwrap()) {
        if kind == "ct" && exp["seeded"].as_bool().unwrap() {
            return Ok(true);
        }
        let val = &obs["val"];
        if val.is_null() {
            return Err("value could not be observed (decryption refused)".into());
        }
        let ev = exp["val"].as_array().unwrap();
        let ov = val.as_array().unwrap();
        if s.ps.scheme == SchemeType::CKKS {
            let nb = exp["nb"].as_i64().unwrap();
            let tol = 2f64.powi(nb as i32);
            for i in 0..ev.len() {
                let dre = (ov[i][0].as_f64().unwrap() - ev[i][0].as_i64().unwrap() as f64).abs();
                let dim = (ov[i][1].as_f64().unwrap() - ev[i][1].as_i64().unwrap() as f64).abs();
                if !(dre <= tol && dim <= tol) {
                    return Err(format!("slot {}: observed {} expected {} (tolerance 2^{})", i, ov[i], ev[i], nb));
                }
            }
        } else {
            for i in 0..ev.len() {
                if ov[i].as_u64() != ev[i].as_u64() {
                    return Err(format!("plaintext: observed {} expected {}", val, exp["val"]));
                }
            }
        }
    }
    Ok(true)
}

/// Replay one behaviour.  Returns a JSON verdict.
pub fn replay_one(s: &Suite, cfg: &Cfg, beh: &Value) -> Value {
    let mut pool = Pool { slots: HashMap::new() };
    let steps = beh["steps"].as_array().unwrap();
    let check_from = beh["check_from"].as_u64().unwrap_or(0) as usize;
    let mut checked = 0;
    let tracing = std::env::var("HCV_TRACE").is_ok();
    for (i, st) in steps.iter().enumerate() {
        let v = st["v"].as_str().unwrap();
        if v == "any" {
            continue;
        }
        let res = match exec_step(s, cfg, &pool, &st["act"], st["dst"].as_str().unwrap()) {
            Some(r) => r,
            None => return json!({"id": beh["id"], "status": "tool_error", "step": i, "detail": "operand handle of the wrong kind"}),
        };
        let checking = i >= check_from;
        if checking {
            checked += 1;
            if let Some(p) = &res.forms_problem {
                return json!({"id": beh["id"], "status": "violation", "step": i, "kind": "forms", "detail": p});
            }
        }
        match (v, res.outcome) {
            ("ok", Outcome::Ret(o)) => {
                if tracing {
                    eprintln!("step {} {}: {}", i, st["act"]["op"], observe(s, &o, true));
                }
                if checking {
                    match compare(s, &st["out"], &o) {
                        Ok(true) => {}
                        Ok(false) => return json!({"id": beh["id"], "status": "diverged", "step": i, "checked": checked}),
                        Err(e) => return json!({"id": beh["id"], "status": "violation", "step": i, "kind": "result", "detail": e, "observed": observe(s, &o, true)}),
                    }
                }
                pool.slots.insert(st["dst"].as_str().unwrap().to_string(), o);
            }
            ("ok", Outcome::Refused(e)) => {
                return json!({"id": beh["id"], "status": "violation", "step": i, "kind": "unexpected_refusal", "detail": e});
            }
            ("refuse", Outcome::Ret(o)) => {
                return json!({"id": beh["id"], "status": "violation", "step": i, "kind": "not_refused",
                    "detail": format!("the call returned normally but must be refused: {}", st["out"]["why"]), "observed": observe(s, &o, false)});
            }
            ("refuse", Outcome::Refused(_)) => {}
            _ => unreachable!(),
        }
    }
    json!({"id": beh["id"], "status": "ok", "checked": checked})
}
