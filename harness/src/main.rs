//! hcv: conformance harness binding the TLA+ specifications in /verif/spec to Heathcliff.
mod c07;
mod c08;
mod c09;
mod c10;
mod c11;
mod c12;
mod c13;
mod c16;
mod c17;
mod c18;
mod c19;
mod c20;
mod drive;
mod he;
mod keys;
mod project;
mod psets;
mod sched;
mod ser;

use serde_json::{json, Value};
use std::io::{BufRead, Write};

fn read_json(path: &str) -> Value {
    serde_json::from_str(&std::fs::read_to_string(path).unwrap_or_else(|e| panic!("read {}: {}", path, e))).unwrap()
}

fn out_line(v: &Value) {
    let so = std::io::stdout();
    let mut l = so.lock();
    writeln!(l, "{}", v).unwrap();
    l.flush().unwrap();
}

fn main() {
    let args: Vec<String> = std::env::args().collect();
    if args.len() < 2 {
        eprintln!("usage: hcv <command> ...");
        std::process::exit(2);
    }
    match args[1].as_str() {
        "info" => {
            project::silence_panics();
            let ps = psets::pset(&args[2]);
            let mut info = ps.info();
            // the number of ciphertext levels the library really builds (the chain stops when a level would be invalid)
            let levels = project::guarded(|| psets::Suite::new(&ps).level_ids.len());
            info["levels"] = json!(levels.unwrap_or(0));
            println!("{}", info);
        }
        // hcv he-replay <config.json> <behaviours.ndjson> [skip]
        "he-replay" => {
            project::silence_panics();
            let cfgj = read_json(&args[2]);
            let ps = psets::pset(cfgj["pset"].as_str().unwrap());
            let suite = psets::Suite::new(&ps);
            let skip: usize = args.get(4).map(|s| s.parse().unwrap()).unwrap_or(0);
            let f = std::io::BufReader::new(std::fs::File::open(&args[3]).unwrap());
            for (i, line) in f.lines().enumerate() {
                if i < skip {
                    continue;
                }
                let beh: Value = serde_json::from_str(&line.unwrap()).unwrap();
                let cfg = he::Cfg {
                    msgs: cfgj["msgs"].as_array().unwrap().clone(),
                    glk_all: beh["glk"].as_str().unwrap_or("default") == "all",
                };
                out_line(&json!({"start": i}));
                let r = he::replay_one(&suite, &cfg, &beh);
                out_line(&r);
            }
            out_line(&json!({"done": true}));
        }
        // hcv he-drive <config.json> <seed> <programs> <length>
        "he-drive" => drive::main(&args[2..]),
        // hcv keys <pset> [generators]: key material as RLWE samples
        "keys" => keys::main(&args[2..]),
        "c07" => c07::main(&args[2..]),
        "c08" => c08::main(&args[2..]),
        "c17" => c17::main(&args[2..]),
        "c18" => c18::main(&args[2..]),
        "c19" => c19::main(&args[2..]),
        "c20" => c20::main(&args[2..]),
        "c13" => c13::main(&args[2..]),
        "c09" => c09::main(&args[2..]),
        "c10" => c10::main(&args[2..]),
        "c11" => c11::main(&args[2..]),
        "c12" => c12::main(&args[2..]),
        "c16" => c16::main(&args[2..]),
        "ser-layout" => ser::layout_events(&args[2], args[3].parse().unwrap()),
        "ser-faults" => ser::fault_replay(&args[2], args[3].parse().unwrap(), &args[4]),
        c => {
            eprintln!("unknown command {}", c);
            std::process::exit(2);
        }
    }
}
