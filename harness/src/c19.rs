//! C19: LWE extraction / field trace / packing events for validation against Lwe.tla.
use crate::project::*;
use crate::psets::*;
use heathcliff::*;
use rand::{Rng, SeedableRng};
use serde_json::{json, Value};

struct W {
    s: Suite,
    auto: GaloisKeys,
}

fn encode(w: &W, vals: &[i64]) -> Plaintext {
    if w.s.ps.scheme == SchemeType::CKKS {
        let v: Vec<f64> = vals.iter().map(|x| *x as f64).collect();
        w.s.ckks.as_ref().unwrap().encode_f64_polynomial_new(&v, None, 2f64.powi(25))
    } else {
        let v: Vec<u64> = vals.iter().map(|x| x.rem_euclid(w.s.ps.t as i64) as u64).collect();
        w.s.batch.as_ref().unwrap().encode_polynomial_new(&v)
    }
}

/// decrypt to integer coefficients; for CKKS rounded, with the largest distance from an integer in thousandths
fn decode(w: &W, c: &Ciphertext) -> Result<(Vec<i64>, i64), String> {
    decode_first(w, c, usize::MAX)
}

/// as `decode`, the deviation taken over the first `upto` coefficients only (the statement about extraction
/// constrains the constant coefficient; the other coefficients of the re-assembled ciphertext are arbitrary)
fn decode_first(w: &W, c: &Ciphertext, upto: usize) -> Result<(Vec<i64>, i64), String> {
    guarded(|| {
        let n = w.s.ps.n;
        if w.s.ps.scheme == SchemeType::CKKS {
            let mut c = c.clone();
            if !c.is_ntt_form() {
                w.s.evaluator.transform_to_ntt_inplace(&mut c);
            }
            let p = w.s.decryptor.decrypt_new(&c);
            let d = w.s.ckks.as_ref().unwrap().decode_polynomial_new(&p);
            let mut dev = 0i64;
            let out: Vec<i64> = d
                .iter()
                .enumerate()
                .map(|(k, x)| {
                    let r = x.round();
                    if k < upto {
                        dev = dev.max(((x - r).abs() * 1000.0) as i64);
                    }
                    r as i64
                })
                .collect();
            (out, dev)
        } else {
            let mut c = c.clone();
            let def_ntt = w.s.ps.scheme == SchemeType::BGV;
            if c.is_ntt_form() && !def_ntt {
                w.s.evaluator.transform_from_ntt_inplace(&mut c);
            } else if !c.is_ntt_form() && def_ntt {
                w.s.evaluator.transform_to_ntt_inplace(&mut c);
            }
            let p = w.s.decryptor.decrypt_new(&c);
            let mut v: Vec<i64> = p.data().iter().map(|x| *x as i64).collect();
            v.resize(n, 0);
            (v, 0)
        }
    })
}

fn ev(w: &W, k: &str, extra: Value, out: Result<(Vec<i64>, i64), String>) -> Value {
    let mut e = json!({"k": k, "n": w.s.ps.n, "t": if w.s.ps.scheme == SchemeType::CKKS { 2 } else { w.s.ps.t }, "exact": w.s.ps.scheme != SchemeType::CKKS, "scheme": scheme_name(w.s.ps.scheme)});
    for (key, v) in extra.as_object().unwrap() {
        e[key] = v.clone();
    }
    match out {
        Ok((o, dev)) => {
            e["out"] = json!(o);
            e["dev"] = json!(dev);
        }
        Err(m) => {
            // a panic: an output no specification accepts
            e["out"] = json!(vec![-1i64; w.s.ps.n]);
            e["dev"] = json!(100000);
            e["panic"] = json!(m);
        }
    }
    e
}

pub fn main(args: &[String]) {
    silence_panics();
    let ps = pset(&args[0]);
    let seed: u64 = args[1].parse().unwrap();
    let quick = args[2] == "quick";
    let mut rng = rand::rngs::StdRng::seed_from_u64(seed);
    let s = Suite::new(&ps);
    let auto = s.keygen.create_automorphism_keys(false);
    let w = W { s, auto };
    let n = w.s.ps.n;
    let small = |rng: &mut rand::rngs::StdRng| -> Vec<i64> { (0..n).map(|_| rng.gen_range(-7..8i64)).collect() };
    let logn = n.trailing_zeros() as usize;
    // extraction of every coefficient, from both representations
    for rep in 0..2 {
        let m = small(&mut rng);
        let mut c = w.s.encryptor.encrypt_new(&encode(&w, &m));
        if rep == 1 {
            if c.is_ntt_form() {
                w.s.evaluator.transform_from_ntt_inplace(&mut c);
            } else {
                w.s.evaluator.transform_to_ntt_inplace(&mut c);
            }
        }
        for i in 0..n {
            let r = guarded(|| w.s.evaluator.assemble_lwe(&w.s.evaluator.extract_lwe(&c, i)));
            let out = r.and_then(|a| decode_first(&w, &a, 1));
            println!("{}", ev(&w, "extract", json!({"m": m, "i": i, "ntt_input": c.is_ntt_form()}), out));
        }
    }
    // field trace for every parameter
    for l in 0..=logn {
        for _ in 0..(if quick { 1 } else { 3 }) {
            let m = small(&mut rng);
            let mut c = w.s.encryptor.encrypt_new(&encode(&w, &m));
            let r = guarded(|| w.s.evaluator.field_trace_inplace(&mut c, &w.auto, l));
            let out = r.and_then(|_| decode(&w, &c));
            println!("{}", ev(&w, "trace", json!({"m": m, "l": l}), out));
        }
    }
    // packing of every count
    for k in 1..=n {
        let mut vals = vec![];
        let mut lwes = vec![];
        for j in 0..k {
            let m = small(&mut rng);
            let idx = (j * 5 + 1) % n;
            let c = w.s.encryptor.encrypt_new(&encode(&w, &m));
            vals.push(m[idx]);
            lwes.push(w.s.evaluator.extract_lwe(&c, idx));
        }
        let r = guarded(|| w.s.evaluator.pack_lwe_ciphertexts(&lwes, &w.auto));
        let out = r.and_then(|c| decode(&w, &c));
        println!("{}", ev(&w, "pack", json!({"vals": vals}), out));
    }
}
