//! C20: homomorphic matrix products and convolutions on small shapes, recorded for validation against MatMul.tla.
use crate::project::*;
use heathcliff::app::conv2d::{Conv2dHelper, Conv2dHelperObjective};
use heathcliff::app::matmul::bolt_cc_cr::MatmulBoltCcCr;
use heathcliff::app::matmul::bolt_cc_dc::MatmulBoltCcDc;
use heathcliff::app::matmul::bolt_cp::MatmulBoltCp;
use heathcliff::app::matmul::cheetah::MatmulHelper;
use heathcliff::app::matmul::MatmulHelperObjective;
use heathcliff::*;
use rand::{Rng, SeedableRng};
use serde_json::{json, Value};
use std::sync::Arc;

struct Env {
    n: usize,
    t: u64,
    ctx: Arc<HeContext>,
    enc: BatchEncoder,
    kg: KeyGenerator,
    encryptor: Encryptor,
    dec: Decryptor,
    ev: Evaluator,
    auto: GaloisKeys,
    glk: GaloisKeys,
    rlk: RelinKeys,
}

fn env(n: usize, t: u64, bits: Vec<usize>) -> Env {
    let parms = EncryptionParameters::new(SchemeType::BFV).set_poly_modulus_degree(n).set_plain_modulus_u64(t).set_coeff_modulus(&CoeffModulus::create(n, bits));
    let ctx = HeContext::new(parms, true, SecurityLevel::None);
    let kg = KeyGenerator::new(ctx.clone());
    Env {
        n,
        t,
        enc: BatchEncoder::new(ctx.clone()),
        encryptor: Encryptor::new(ctx.clone()).set_public_key(kg.create_public_key(false)).set_secret_key(kg.secret_key().clone()),
        dec: Decryptor::new(ctx.clone(), kg.secret_key().clone()),
        ev: Evaluator::new(ctx.clone()),
        auto: kg.create_automorphism_keys(false),
        glk: kg.create_galois_keys(false),
        rlk: kg.create_relin_keys(false),
        kg,
        ctx,
    }
}

fn rand_vec(rng: &mut impl Rng, len: usize, t: u64) -> Vec<u64> {
    (0..len).map(|_| rng.gen_range(0..t)).collect()
}

fn emit(base: Value, r: Result<Vec<u64>, String>) {
    let mut e = base;
    match r {
        Ok(y) => e["y"] = json!(y),
        Err(m) => {
            e["y"] = json!([]);
            e["panic"] = json!(m);
        }
    }
    println!("{}", e);
}

fn cheetah(e: &Env, rng: &mut impl Rng, m: usize, r: usize, n: usize, objective: MatmulHelperObjective, reverse: bool, pack: bool) {
    cheetah_with(e, rng, m, r, n, objective, reverse, pack, false);
}

fn cheetah_with(e: &Env, rng: &mut impl Rng, m: usize, r: usize, n: usize, objective: MatmulHelperObjective, reverse: bool, pack: bool, zero: bool) {
    let x = rand_vec(rng, m * r, e.t);
    let w = if zero { vec![0; r * n] } else { rand_vec(rng, r * n, e.t) };
    let bias = if zero { vec![0; m * n] } else { rand_vec(rng, m * n, e.t) };
    let base = json!({"k": "matmul", "helper": "cheetah", "objective": format!("{:?}", objective), "reverse": reverse, "pack": pack, "N": e.n, "t": e.t, "m": m, "r": r, "n": n, "x": x, "w": w, "bias": bias});
    let out = guarded(|| {
        let h = MatmulHelper::new(m, r, n, e.n, objective, pack);
        let xe = h.encode_inputs_bfv(&e.enc, &x);
        let we = h.encode_weights_bfv(&e.enc, &w);
        let mut y = if !reverse {
            let xc = xe.encrypt_symmetric(&e.encryptor).expand_seed(&e.ctx);
            h.matmul(&e.ev, &xc, &we)
        } else {
            let wc = we.encrypt_symmetric(&e.encryptor).expand_seed(&e.ctx);
            h.matmul_reverse(&e.ev, &xe, &wc)
        };
        if pack {
            y = h.pack_outputs(&e.ev, &e.auto, &y);
        }
        let be = h.encode_outputs_bfv(&e.enc, &bias);
        y.add_plain_inplace(&e.ev, &be);
        if !pack {
            // selected-term transport, as a client would receive it
            let terms = h.output_terms();
            let mut buf = vec![];
            y.serialize_terms(&e.ctx, &terms, &mut buf).unwrap();
            y = app::matmul::Cipher2d::deserialize_terms(&e.ctx, &terms, &mut buf.as_slice()).unwrap();
        }
        h.decrypt_outputs_bfv(&e.enc, &e.dec, &y)
    });
    emit(base, out);
    // output re-encoding is the inverse of output decoding
    let v = rand_vec(rng, m * n, e.t);
    let rt = guarded(|| {
        let h = MatmulHelper::new(m, r, n, e.n, objective, pack);
        let pe = h.encode_outputs_bfv(&e.enc, &v);
        let c = pe.encrypt(&e.encryptor);
        h.decrypt_outputs_bfv(&e.enc, &e.dec, &c)
    });
    let mut ev = json!({"k": "roundtrip", "helper": "cheetah", "pack": pack, "N": e.n, "t": e.t, "m": m, "r": r, "n": n, "v": v});
    match rt {
        Ok(o) => ev["out"] = json!(o),
        Err(msg) => {
            ev["out"] = json!([]);
            ev["panic"] = json!(msg);
        }
    }
    println!("{}", ev);
}

/// Layout of the coefficient packing for Cheetah.tla: the encoded polynomials of structured operands and the term lists
#[allow(deprecated)]
fn cheetah_layout(e: &Env, m: usize, r: usize, n: usize, objective: MatmulHelperObjective) {
    let x: Vec<u64> = (0..m * r).map(|i| 1 + (i as u64 % (e.t - 1))).collect();
    let w: Vec<u64> = (0..r * n).map(|i| 1 + ((2 + 3 * i as u64) % (e.t - 1))).collect();
    let mut ev = json!({"k": "cheetah_layout", "objective": format!("{:?}", objective), "N": e.n, "t": e.t, "m": m, "r": r, "n": n, "x": x, "w": w});
    let out = guarded(|| {
        let h = MatmulHelper::new(m, r, n, e.n, objective, false);
        let dec = |p: &Plaintext| -> Vec<u64> {
            let mut v = e.enc.decode_polynomial_new(p);
            v.resize(e.n, 0);
            v
        };
        let xe: Vec<Vec<Vec<u64>>> = h.encode_inputs_bfv(&e.enc, &x).data.iter().map(|row| row.data.iter().map(|p| dec(p)).collect()).collect();
        let we: Vec<Vec<Vec<u64>>> = h.encode_weights_bfv(&e.enc, &w).data.iter().map(|row| row.data.iter().map(|p| dec(p)).collect()).collect();
        (xe, we, h.input_terms(), h.output_terms())
    });
    match out {
        Ok((xe, we, it, ot)) => {
            ev["enc_in"] = json!(xe);
            ev["enc_w"] = json!(we);
            ev["in_terms"] = json!(it);
            ev["out_terms"] = json!(ot);
        }
        Err(msg) => ev["panic"] = json!(msg),
    }
    println!("{}", ev);
}

fn bolt(e: &Env, rng: &mut impl Rng, which: &str, m: usize, r: usize, n: usize) {
    let x = rand_vec(rng, m * r, e.t);
    let w = rand_vec(rng, r * n, e.t);
    let base = json!({"k": "matmul", "helper": which, "N": e.n, "t": e.t, "m": m, "r": r, "n": n, "x": x, "w": w, "bias": vec![0u64; m * n]});
    let out = guarded(|| match which {
        "bolt_cp" => {
            let h = MatmulBoltCp::new(m, r, n, e.n);
            let xc = h.encode_inputs(&e.enc, &x).encrypt_symmetric(&e.encryptor).expand_seed(&e.ctx);
            let we = h.encode_weights(&e.enc, &w);
            let y = h.multiply(&e.ev, &e.glk, &xc, &we);
            let yd = y.decrypt(&e.dec);
            let out = h.decode_outputs(&e.enc, &yd);
            let back = h.decode_outputs(&e.enc, &h.encode_outputs(&e.enc, &out));
            assert_eq!(back, out, "encode_outputs is not the inverse of decode_outputs");
            out
        }
        "bolt_cc_cr" => {
            let h = MatmulBoltCcCr::new(m, r, n, e.n);
            let xc = h.encode_inputs(&e.enc, &x).encrypt_symmetric(&e.encryptor).expand_seed(&e.ctx);
            let wc = h.encode_weights(&e.enc, &w).encrypt_symmetric(&e.encryptor).expand_seed(&e.ctx);
            let y = h.multiply(&e.enc, &e.ev, &e.glk, &e.rlk, &xc, &wc);
            let yd = y.decrypt(&e.dec);
            let out = h.decode_outputs(&e.enc, &yd);
            let back = h.decode_outputs(&e.enc, &h.encode_outputs(&e.enc, &out));
            assert_eq!(back, out, "encode_outputs is not the inverse of decode_outputs");
            out
        }
        _ => {
            let h = MatmulBoltCcDc::new(m, r, n, e.n);
            let xc = h.encode_inputs(&e.enc, &x).encrypt_symmetric(&e.encryptor).expand_seed(&e.ctx);
            let wc = h.encode_weights(&e.enc, &w).encrypt_symmetric(&e.encryptor).expand_seed(&e.ctx);
            let y = h.multiply(&e.enc, &e.ev, &e.glk, &e.rlk, &xc, &wc);
            let yd = y.decrypt(&e.dec);
            let out = h.decode_outputs(&e.enc, &yd);
            let back = h.decode_outputs(&e.enc, &h.encode_outputs(&e.enc, &out));
            assert_eq!(back, out, "encode_outputs is not the inverse of decode_outputs");
            out
        }
    });
    emit(base, out);
}

/// The slot layouts of the BOLT helpers (Bolt.tla): encoded inputs and weights of operands with (nearly) pairwise distinct
/// entries and the positions `encode_outputs` writes the result to, decoded back to slot vectors.
fn bolt_layout(e: &Env, which: &str, m: usize, r: usize, n: usize) {
    let x: Vec<u64> = (0..m * r).map(|i| 1 + (i as u64 % (e.t - 1))).collect();
    let w: Vec<u64> = (0..r * n).map(|i| 1 + ((2 + 3 * i as u64) % (e.t - 1))).collect();
    let c: Vec<u64> = (0..m * n).map(|i| 1 + ((5 + 7 * i as u64) % (e.t - 1))).collect();
    let mut ev = json!({"k": "bolt_layout", "helper": which, "N": e.n, "t": e.t, "m": m, "r": r, "n": n, "x": x, "w": w, "c": c});
    let slots = |p: &heathcliff::app::matmul::Plain2d| -> Vec<Vec<Vec<u64>>> { p.iter().map(|row| row.iter().map(|pt| e.enc.decode_new(pt)).collect()).collect() };
    let out = guarded(|| match which {
        "bolt_cp" => {
            let h = MatmulBoltCp::new(m, r, n, e.n);
            (slots(&h.encode_inputs(&e.enc, &x)), slots(&h.encode_weights(&e.enc, &w)), slots(&h.encode_outputs(&e.enc, &c)))
        }
        "bolt_cc_cr" => {
            let h = MatmulBoltCcCr::new(m, r, n, e.n);
            (slots(&h.encode_inputs(&e.enc, &x)), slots(&h.encode_weights(&e.enc, &w)), slots(&h.encode_outputs(&e.enc, &c)))
        }
        _ => {
            let h = MatmulBoltCcDc::new(m, r, n, e.n);
            (slots(&h.encode_inputs(&e.enc, &x)), slots(&h.encode_weights(&e.enc, &w)), slots(&h.encode_outputs(&e.enc, &c)))
        }
    });
    match out {
        Ok((xi, wi, ci)) => {
            ev["enc_in"] = json!(xi);
            ev["enc_w"] = json!(wi);
            ev["enc_out"] = json!(ci);
            ev["panicked"] = json!(false);
        }
        Err(msg) => {
            ev["panicked"] = json!(true);
            ev["panic"] = json!(msg);
        }
    }
    println!("{}", ev);
}

fn conv(e: &Env, rng: &mut impl Rng, bs: usize, ci: usize, co: usize, h: usize, w: usize, kh: usize, kw: usize, reverse: bool) {
    conv_with(e, rng, bs, ci, co, h, w, kh, kw, reverse, false);
}

/// `zero`: all-zero weights and bias (a sparse layer): every output is 0 and the decrypted polynomials are short
fn conv_with(e: &Env, rng: &mut impl Rng, bs: usize, ci: usize, co: usize, h: usize, w: usize, kh: usize, kw: usize, reverse: bool, zero: bool) {
    let (oh, ow) = (h - kh + 1, w - kw + 1);
    let x = rand_vec(rng, bs * ci * h * w, e.t);
    let wt = if zero { vec![0; co * ci * kh * kw] } else { rand_vec(rng, co * ci * kh * kw, e.t) };
    let bias = if zero { vec![0; bs * co * oh * ow] } else { rand_vec(rng, bs * co * oh * ow, e.t) };
    let base = json!({"k": "conv", "helper": "conv2d", "reverse": reverse, "N": e.n, "t": e.t, "bs": bs, "ci": ci, "co": co, "h": h, "wd": w, "kh": kh, "kw": kw, "x": x, "w": wt, "bias": bias});
    let out = guarded(|| {
        let hp = Conv2dHelper::new(bs, ci, co, h, w, kh, kw, e.n, if reverse { Conv2dHelperObjective::PlainCipher } else { Conv2dHelperObjective::CipherPlain });
        let xe = hp.encode_inputs_bfv(&e.enc, &x);
        let we = hp.encode_weights_bfv(&e.enc, &wt);
        let mut y = if !reverse {
            let xc = xe.encrypt_symmetric(&e.encryptor).expand_seed(&e.ctx);
            hp.conv2d(&e.ev, &xc, &we)
        } else {
            let wc = we.encrypt_symmetric(&e.encryptor).expand_seed(&e.ctx);
            hp.conv2d_reverse(&e.ev, &xe, &wc)
        };
        let be = hp.encode_outputs_bfv(&e.enc, &bias);
        y.add_plain_inplace(&e.ev, &be);
        let terms = hp.output_terms();
        let mut buf = vec![];
        y.serialize_terms(&e.ctx, &terms, &mut buf).unwrap();
        let y = app::matmul::Cipher2d::deserialize_terms(&e.ctx, &terms, &mut buf.as_slice()).unwrap();
        hp.decrypt_outputs_bfv(&e.enc, &e.dec, &y)
    });
    emit(base, out);
}

/// Layout of the convolution packing for Conv2d.tla: encoded tiles / weight blocks of structured tensors and the term list
fn conv_layout(e: &Env, bs: usize, ci: usize, co: usize, h: usize, w: usize, kh: usize, kw: usize, objective: Conv2dHelperObjective) {
    let x: Vec<u64> = (0..bs * ci * h * w).map(|i| 1 + (i as u64 % (e.t - 1))).collect();
    let wt: Vec<u64> = (0..co * ci * kh * kw).map(|i| 1 + ((5 + 7 * i as u64) % (e.t - 1))).collect();
    let mut ev = json!({"k": "conv_layout", "objective": format!("{:?}", objective), "N": e.n, "t": e.t, "bs": bs, "ci": ci, "co": co, "h": h, "wd": w, "kh": kh, "kw": kw, "x": x, "w": wt});
    let out = guarded(|| {
        let hp = Conv2dHelper::new(bs, ci, co, h, w, kh, kw, e.n, objective);
        let dec = |p: &Plaintext| -> Vec<u64> {
            let mut v = e.enc.decode_polynomial_new(p);
            v.resize(e.n, 0);
            v
        };
        let xe: Vec<Vec<Vec<u64>>> = hp.encode_inputs_bfv(&e.enc, &x).data.iter().map(|row| row.data.iter().map(|p| dec(p)).collect()).collect();
        let we: Vec<Vec<Vec<u64>>> = hp.encode_weights_bfv(&e.enc, &wt).data.iter().map(|row| row.data.iter().map(|p| dec(p)).collect()).collect();
        (xe, we, hp.output_terms())
    });
    match out {
        Ok((xe, we, ot)) => {
            ev["enc_in"] = json!(xe);
            ev["enc_w"] = json!(we);
            ev["out_terms"] = json!(ot);
        }
        Err(msg) => ev["panic"] = json!(msg),
    }
    println!("{}", ev);
}

/// RNS-plaintext wrapper (big plain modulus T = t_1 * ... * t_k): encode / encrypt / evaluate / decrypt / decode must compute modulo T
fn rnsp(rng: &mut impl Rng, n: usize, ts: &[u64], quick: bool) {
    use heathcliff::app::rns_plain::*;
    let k = ts.len();
    let big_t: u64 = ts.iter().product();
    let parms = RnspEncryptionParameters::new(SchemeType::BFV)
        .set_poly_modulus_degree(n)
        .set_plain_modulus(ts.iter().map(|&t| Modulus::new(t)).collect())
        .set_coeff_modulus(CoeffModulus::create(n, vec![50, 50, 50, 50]));
    let ctx = RnspHeContext::new(parms, true, SecurityLevel::None);
    let kg = RnspKeyGenerator::new(&ctx);
    let enc = RnspBatchEncoder::new(&ctx);
    let encryptor = RnspEncryptor::new(&ctx).set_public_key(kg.create_public_key(false)).set_secret_key(kg.get_secret_key());
    let dec = RnspDecryptor::new(&ctx, kg.get_secret_key());
    let ev = RnspEvaluator::new(&ctx);
    let rlk = kg.create_relin_keys(false);
    // a value v < T as k little-endian words
    let words = |v: &[u64]| -> Vec<u64> {
        let mut out = vec![];
        for &x in v {
            out.push(x);
            out.extend(std::iter::repeat(0).take(k - 1));
        }
        out
    };
    let unwords = |w: &[u64]| -> Vec<u64> { w.chunks(k).map(|c| if c[1..].iter().all(|&x| x == 0) { c[0] } else { u64::MAX }).collect() };
    let reps = if quick { 4 } else { 12 };
    for r in 0..reps {
        let mk = |rng: &mut dyn rand::RngCore, r: usize| -> Vec<u64> {
            (0..n).map(|i| match (r + i) % 5 { 0 => 0, 1 => big_t - 1, 2 => ts[0] % big_t, _ => rng.next_u64() % big_t }).collect()
        };
        // shorter inputs are legal: the encoder pads them with zeros (the record holds the padded vectors)
        let la = [n, 1, n / 2 + 1, n - 1][r % 4];
        let lb = [n, n, 2, n / 2][r % 4];
        let mut a = mk(rng, r);
        let mut b = mk(rng, r + 1);
        for x in a.iter_mut().skip(la) {
            *x = 0;
        }
        for x in b.iter_mut().skip(lb) {
            *x = 0;
        }
        for poly in [false, true] {
            // (products are judged with native TLC integers: only for T below 2^15.5)
            let ops: &[&str] = if poly || big_t > 46340 { &["id", "neg", "add", "sub", "add_plain", "sub_plain"] } else { &["id", "neg", "add", "sub", "mul", "square", "add_plain", "sub_plain", "mul_plain"] };
            for op in ops {
                for sym in [false, true] {
                    if quick && sym && (r + op.len()) % 2 == 0 {
                        continue;
                    }
                    let mut e = json!({"k": "rnsp", "op": op, "poly": poly, "sym": sym, "moduli": ts, "N": n, "a": a, "b": b, "given": [la, lb]});
                    let out = guarded(|| {
                        let pa = if poly { enc.encode_polynomial_new(&words(&a[..la])) } else { enc.encode_new(&words(&a[..la])) };
                        let pb = if poly { enc.encode_polynomial_new(&words(&b[..lb])) } else { enc.encode_new(&words(&b[..lb])) };
                        let ca = if sym { encryptor.encrypt_symmetric_new(&pa).expand_seed(&ctx) } else { encryptor.encrypt_new(&pa) };
                        let cb = encryptor.encrypt_new(&pb);
                        let c = match *op {
                            "id" => ca,
                            "neg" => ev.negate_new(&ca),
                            "add" => ev.add_new(&ca, &cb),
                            "sub" => ev.sub_new(&ca, &cb),
                            "mul" => ev.relinearize_new(&ev.multiply_new(&ca, &cb), &rlk),
                            "square" => ev.relinearize_new(&ev.square_new(&ca), &rlk),
                            "add_plain" => ev.add_plain_new(&ca, &pb),
                            "sub_plain" => ev.sub_plain_new(&ca, &pb),
                            _ => ev.multiply_plain_new(&ca, &pb),
                        };
                        let p = dec.decrypt_new(&c);
                        unwords(&if poly { enc.decode_polynomial_new(&p) } else { enc.decode_new(&p) })
                    });
                    match out {
                        Ok(o) => e["out"] = json!(o),
                        Err(m) => {
                            e["out"] = json!([]);
                            e["panic"] = json!(m);
                        }
                    }
                    println!("{}", e);
                }
            }
        }
    }
}

/// CKKS variants of the coefficient-packing matmul and of conv2d: small integer operands, outputs recorded in units of 2^-10
fn ckks_variants(rng: &mut impl Rng, quick: bool) {
    let n = 32usize;
    let parms = EncryptionParameters::new(SchemeType::CKKS).set_poly_modulus_degree(n).set_coeff_modulus(&CoeffModulus::create(n, vec![60, 40, 40, 60]));
    let ctx = HeContext::new(parms.clone(), true, SecurityLevel::None);
    let enc = CKKSEncoder::new(ctx.clone());
    let kg = KeyGenerator::new(ctx.clone());
    let encryptor = Encryptor::new(ctx.clone()).set_public_key(kg.create_public_key(false)).set_secret_key(kg.secret_key().clone());
    let dec = Decryptor::new(ctx.clone(), kg.secret_key().clone());
    let ev = Evaluator::new(ctx.clone());
    let auto = kg.create_automorphism_keys(false);
    let scale = 2f64.powi(40);
    let q_drop = parms.coeff_modulus()[parms.coeff_modulus().len() - 2].value() as f64;
    let small = |rng: &mut dyn rand::RngCore, len: usize| -> Vec<i64> { (0..len).map(|_| (rng.next_u64() % 11) as i64 - 5).collect() };
    let f = |v: &[i64]| -> Vec<f64> { v.iter().map(|&x| x as f64).collect() };
    let units = |v: &[f64]| -> Vec<i64> { v.iter().map(|&x| (x * 1024.0).round() as i64).collect() };
    let mx = if quick { 3 } else { 5 };
    for m in 1..=mx {
        for r in 1..=mx {
            for nn in 1..=mx {
                for pack in [false, true] {
                    if quick && (m + r + nn + pack as usize) % 2 == 1 {
                        continue;
                    }
                    let (x, w, bias) = (small(rng, m * r), small(rng, r * nn), small(rng, m * nn));
                    let mut e = json!({"k": "matmul_ckks", "helper": "cheetah_ckks", "pack": pack, "N": n, "m": m, "r": r, "n": nn, "x": x, "w": w, "bias": bias});
                    let out = guarded(|| {
                        let h = MatmulHelper::new(m, r, nn, n, MatmulHelperObjective::CipherPlain, pack);
                        let xc = h.encode_inputs_ckks(&enc, &f(&x), None, scale).encrypt_symmetric(&encryptor).expand_seed(&ctx);
                        let we = h.encode_weights_ckks(&enc, &f(&w), None, scale);
                        let mut y = h.matmul(&ev, &xc, &we);
                        if pack {
                            y = h.pack_outputs(&ev, &auto, &y);
                        }
                        let be = h.encode_outputs_ckks(&enc, &f(&bias), None, scale * scale / q_drop);
                        y.rescale_to_next_inplace(&ev);
                        y.add_plain_inplace(&ev, &be);
                        units(&h.decrypt_outputs_ckks(&enc, &dec, &y))
                    });
                    match out {
                        Ok(o) => e["y1024"] = json!(o),
                        Err(msg) => {
                            e["y1024"] = json!([]);
                            e["panic"] = json!(msg);
                        }
                    }
                    println!("{}", e);
                }
            }
        }
    }
    let hs: Vec<usize> = if quick { vec![2, 3, 5] } else { vec![2, 3, 4, 5, 6, 7] };
    for &h in &hs {
        for &w in &hs {
            for kh in 1..=2usize {
                for kw in 1..=2usize {
                    if kh > h || kw > w {
                        continue;
                    }
                    for (bs, ci, co) in [(1usize, 1usize, 1usize), (1, 2, 1), (2, 1, 2)] {
                        if quick && (h + w + kh + kw + bs + ci) % 2 == 1 {
                            continue;
                        }
                        let (oh, ow) = (h - kh + 1, w - kw + 1);
                        let (x, wt, bias) = (small(rng, bs * ci * h * w), small(rng, co * ci * kh * kw), small(rng, bs * co * oh * ow));
                        let mut e = json!({"k": "conv_ckks", "helper": "conv2d_ckks", "N": n, "bs": bs, "ci": ci, "co": co, "h": h, "wd": w, "kh": kh, "kw": kw, "x": x, "w": wt, "bias": bias});
                        let out = guarded(|| {
                            let hp = Conv2dHelper::new(bs, ci, co, h, w, kh, kw, n, Conv2dHelperObjective::CipherPlain);
                            let xc = hp.encode_inputs_ckks(&enc, &f(&x), None, scale).encrypt_symmetric(&encryptor).expand_seed(&ctx);
                            let we = hp.encode_weights_ckks(&enc, &f(&wt), None, scale);
                            let mut y = hp.conv2d(&ev, &xc, &we);
                            let be = hp.encode_outputs_ckks(&enc, &f(&bias), None, scale * scale / q_drop);
                            y.rescale_to_next_inplace(&ev);
                            y.add_plain_inplace(&ev, &be);
                            units(&hp.decrypt_outputs_ckks(&enc, &dec, &y))
                        });
                        match out {
                            Ok(o) => e["y1024"] = json!(o),
                            Err(msg) => {
                                e["y1024"] = json!([]);
                                e["panic"] = json!(msg);
                            }
                        }
                        println!("{}", e);
                    }
                }
            }
        }
    }
}

pub fn main(args: &[String]) {
    silence_panics();
    let quick = args[0] == "quick";
    let seed: u64 = args[1].parse().unwrap();
    let part = args.get(2).map(|s| s.as_str()).unwrap_or("all");
    let mut rng = rand::rngs::StdRng::seed_from_u64(seed);
    let mx = if quick { 4 } else { 6 };
    if part == "all" || part == "cheetah" {
        for (n, t) in [(16usize, 97u64), (32, 193)] {
            if quick && n == 32 {
                continue;
            }
            let e = env(n, t, vec![50, 50, 50]);
            for m in 1..=mx {
                for r in 1..=mx {
                    for nn in 1..=mx {
                        for (obj, rev) in [(MatmulHelperObjective::CipherPlain, false), (MatmulHelperObjective::PlainCipher, true), (MatmulHelperObjective::CpAddPc, false)] {
                            for pack in [false, true] {
                                if quick && pack && (m + r + nn) % 3 != 0 {
                                    continue;
                                }
                                cheetah(&e, &mut rng, m, r, nn, obj, rev, pack);
                            }
                        }
                    }
                }
            }
            // the coefficient layout itself (Cheetah.tla): every shape up to mx + 1, every objective
            for m in 1..=mx + 1 {
                for r in 1..=mx + 1 {
                    for nn in 1..=mx + 1 {
                        for obj in [MatmulHelperObjective::CipherPlain, MatmulHelperObjective::PlainCipher, MatmulHelperObjective::CpAddPc] {
                            cheetah_layout(&e, m, r, nn, obj);
                        }
                    }
                }
            }
            // sparse layers: all-zero weights and bias
            for (m, r, nn) in [(1, 1, 1), (2, 3, 2), (4, 4, 3), (3, 2, 5), (20, 3, 2)] {
                for pack in [false, true] {
                    cheetah_with(&e, &mut rng, m, r, nn, MatmulHelperObjective::CipherPlain, false, pack, true);
                    cheetah_with(&e, &mut rng, m, r, nn, MatmulHelperObjective::PlainCipher, true, pack, true);
                }
            }
            // shapes needing several ciphertexts and partial last blocks
            for (m, r, nn) in [(20, 3, 2), (3, 20, 5), (2, 5, 19), (7, 7, 7), (40, 2, 3), (9, 17, 3)] {
                for pack in [false, true] {
                    cheetah(&e, &mut rng, m, r, nn, MatmulHelperObjective::CipherPlain, false, pack);
                    cheetah(&e, &mut rng, m, r, nn, MatmulHelperObjective::PlainCipher, true, pack);
                }
            }
        }
    }
    if part == "all" || part == "cheetah" {
        // a larger degree with shapes up to several ciphertexts per operand
        let e = env(256, 7681, vec![55, 55, 55]);
        let shapes: Vec<(usize, usize, usize)> = if quick { vec![(3, 100, 7), (40, 20, 30), (1, 300, 1)] } else { vec![(3, 100, 7), (40, 20, 30), (1, 300, 1), (64, 64, 64), (17, 80, 96), (300, 2, 3)] };
        for (m, r, nn) in shapes {
            for pack in [false, true] {
                cheetah(&e, &mut rng, m, r, nn, MatmulHelperObjective::CipherPlain, false, pack);
                cheetah(&e, &mut rng, m, r, nn, MatmulHelperObjective::PlainCipher, true, pack);
            }
        }
        let mut e2 = env(256, 7681, vec![55, 55, 55]);
        e2.n = 256;
        for (bs, ci, co, h, w, kh, kw) in [(1usize, 3usize, 4usize, 12usize, 12usize, 3usize, 3usize), (2, 1, 2, 20, 9, 2, 5), (1, 8, 8, 6, 6, 3, 3)] {
            conv(&e2, &mut rng, bs, ci, co, h, w, kh, kw, false);
            conv(&e2, &mut rng, bs, ci, co, h, w, kh, kw, true);
        }
    }
    if part == "all" || part == "bolt" {
        let e = env(32, 193, vec![55, 55, 55, 55]);
        let shapes: Vec<(usize, usize, usize)> = if quick {
            vec![(1, 1, 1), (2, 3, 4), (4, 5, 6), (3, 3, 3), (5, 2, 7), (6, 6, 2), (17, 5, 6), (4, 9, 3)]
        } else {
            let mut v = vec![];
            for m in 1..=6 {
                for r in 1..=6 {
                    for n in 1..=6 {
                        if (m + 2 * r + 3 * n) % 4 == 0 {
                            v.push((m, r, n));
                        }
                    }
                }
            }
            v.extend([(17, 5, 6), (4, 9, 3), (20, 5, 6), (9, 9, 9), (33, 4, 2)]);
            v
        };
        for (m, r, n) in shapes {
            for which in ["bolt_cp", "bolt_cc_cr", "bolt_cc_dc"] {
                bolt(&e, &mut rng, which, m, r, n);
            }
        }
        // the slot layouts, and results at the degrees at which Bolt.tla checks the rotation programs
        let e8 = env(8, 97, vec![55, 55, 55, 55]);
        let e16 = env(16, 97, vec![55, 55, 55, 55]);
        let top = if quick { 5 } else { 7 };
        for en in [&e8, &e16, &e] {
            for m in 1..=top {
                for r in 1..=top {
                    for n in 1..=top {
                        if quick && en.n != 8 && (m + 2 * r + 3 * n) % 3 != 0 {
                            continue;
                        }
                        for which in ["bolt_cp", "bolt_cc_cr", "bolt_cc_dc"] {
                            bolt_layout(en, which, m, r, n);
                        }
                    }
                }
            }
            for (m, r, n) in [(en.n / 2 + 1, 2usize, 3usize), (3, en.n / 2 + 2, 2), (2, 3, en.n + 1), (en.n + 1, en.n / 2 + 1, 2)] {
                for which in ["bolt_cp", "bolt_cc_cr", "bolt_cc_dc"] {
                    bolt_layout(en, which, m, r, n);
                }
            }
        }
        for en in [&e8, &e16] {
            for (m, r, n) in [(5usize, 2usize, 5usize), (3, 7, 2), (9, 3, 2), (2, 9, 3), (2, 2, 9), (4, 2, 11), (3, 17, 3), (17, 2, 2)] {
                for which in ["bolt_cp", "bolt_cc_cr", "bolt_cc_dc"] {
                    bolt(en, &mut rng, which, m, r, n);
                }
            }
            // every small shape
            let top = if quick { 4 } else { 6 };
            for m in 1..=top {
                for r in 1..=top {
                    for n in 1..=top {
                        if en.n != 8 && (m + r + n) % 2 == 1 {
                            continue;
                        }
                        for which in ["bolt_cp", "bolt_cc_cr", "bolt_cc_dc"] {
                            bolt(en, &mut rng, which, m, r, n);
                        }
                    }
                }
            }
        }
    }
    if part == "all" || part == "ckks" {
        ckks_variants(&mut rng, quick);
    }
    if part == "all" || part == "rnsp" {
        rnsp(&mut rng, 8, &[17, 97], quick);
        rnsp(&mut rng, 8, &[97, 113], quick);
        rnsp(&mut rng, 16, &[97, 193], quick);
        if !quick {
            rnsp(&mut rng, 8, &[17, 97, 113], quick);
        }
    }
    if part == "all" || part == "conv" {
        let e = env(32, 193, vec![50, 50, 50]);
        // the packing layout itself (Conv2d.tla)
        let mxhw = if quick { 4 } else { 6 };
        let mxk = if quick { 2 } else { 3 };
        for bs in 1..=2usize {
            for ci in 1..=2usize {
                for co in 1..=2usize {
                    for h in 1..=mxhw {
                        for w in 1..=mxhw {
                            for kh in 1..=mxk.min(h) {
                                for kw in 1..=mxk.min(w) {
                                    for obj in [Conv2dHelperObjective::CipherPlain, Conv2dHelperObjective::PlainCipher, Conv2dHelperObjective::CpAddPc] {
                                        if (bs + ci + co + h + w + kh + kw) % 2 == 0 || !quick {
                                            conv_layout(&e, bs, ci, co, h, w, kh, kw, obj);
                                        }
                                    }
                                }
                            }
                        }
                    }
                }
            }
        }
        let hs: Vec<usize> = if quick { vec![2, 3, 5, 7] } else { (2..=9).collect() };
        for &h in &hs {
            for &w in &hs {
                for kh in 1..=2usize {
                    for kw in 1..=3usize {
                        if kh > h || kw > w {
                            continue;
                        }
                        for (bs, ci, co) in [(1usize, 1usize, 1usize), (1, 2, 1), (2, 1, 2), (1, 2, 2)] {
                            if quick && (h + w + kh + kw + bs + ci + co) % 2 == 1 {
                                continue;
                            }
                            conv(&e, &mut rng, bs, ci, co, h, w, kh, kw, (h + w + ci) % 2 == 0);
                            if (h + 2 * w + kh + kw + co) % 3 == 0 {
                                conv_with(&e, &mut rng, bs, ci, co, h, w, kh, kw, (h + w + ci) % 2 == 0, true);
                            }
                        }
                    }
                }
            }
        }
    }
}
