//! Parameter sets and ready-made tool suites at the small constants the TLA+ models use.
use heathcliff::*;
use serde_json::{json, Value};
use std::sync::Arc;

#[derive(Clone, Debug)]
pub struct PSet {
    pub name: String,
    pub scheme: SchemeType,
    pub n: usize,
    pub t: u64,
    pub primes: Vec<u64>,
}

pub fn scheme_name(s: SchemeType) -> &'static str {
    match s {
        SchemeType::BFV => "bfv",
        SchemeType::BGV => "bgv",
        SchemeType::CKKS => "ckks",
        _ => "none",
    }
}

pub fn scheme_of(s: &str) -> SchemeType {
    match s {
        "bfv" => SchemeType::BFV,
        "bgv" => SchemeType::BGV,
        "ckks" => SchemeType::CKKS,
        _ => panic!("unknown scheme {}", s),
    }
}

/// Named parameter sets: `<scheme>_<n>_<t>_<bits,bits,...>`, e.g. `bfv_8_17_50,50,50,50`.
/// The last prime is the special (key-switching) prime.
pub fn pset(name: &str) -> PSet {
    let parts: Vec<&str> = name.split('_').collect();
    assert!(parts.len() == 4, "pset name: scheme_n_t_bits,bits,..");
    let scheme = scheme_of(parts[0]);
    let n: usize = parts[1].parse().unwrap();
    let t: u64 = parts[2].parse().unwrap();
    let bits: Vec<usize> = parts[3].split(',').map(|b| b.parse().unwrap()).collect();
    let primes: Vec<u64> = CoeffModulus::create(n, bits).iter().map(|m| m.value()).collect();
    PSet { name: name.to_string(), scheme, n, t, primes }
}

pub fn explicit(scheme: SchemeType, n: usize, t: u64, primes: &[u64]) -> PSet {
    PSet { name: format!("{}_{}_{}_explicit", scheme_name(scheme), n, t), scheme, n, t, primes: primes.to_vec() }
}

impl PSet {
    pub fn params(&self) -> EncryptionParameters {
        let moduli: Vec<Modulus> = self.primes.iter().map(|&p| Modulus::new(p)).collect();
        let mut p = EncryptionParameters::new(self.scheme)
            .set_poly_modulus_degree(self.n)
            .set_coeff_modulus(&moduli);
        if self.scheme != SchemeType::CKKS {
            p = p.set_plain_modulus_u64(self.t);
        }
        p
    }
    pub fn info(&self) -> Value {
        json!({
            "name": self.name, "scheme": scheme_name(self.scheme), "n": self.n, "t": self.t,
            "primes": self.primes.iter().map(|p| p.to_string()).collect::<Vec<_>>(),
        })
    }
}

pub struct Suite {
    pub ps: PSet,
    pub ctx: Arc<HeContext>,
    pub keygen: KeyGenerator,
    pub sk: SecretKey,
    pub pk: PublicKey,
    pub rlk: RelinKeys,
    /// default Galois keys (power-of-two steps: rotations by other steps are NAF-composed)
    pub glk_default: GaloisKeys,
    /// Galois keys for every odd element (direct path)
    pub glk_all: GaloisKeys,
    pub encryptor: Encryptor,
    pub decryptor: Decryptor,
    pub evaluator: Evaluator,
    pub batch: Option<BatchEncoder>,
    pub ckks: Option<CKKSEncoder>,
    /// level (chain index) -> parms id, for 0..=first
    pub level_ids: Vec<ParmsID>,
}

impl Suite {
    pub fn new(ps: &PSet) -> Suite {
        let ctx = HeContext::new(ps.params(), true, SecurityLevel::None);
        assert!(ctx.parameters_set(), "parameter set {} rejected by the library", ps.name);
        let keygen = KeyGenerator::new(ctx.clone());
        let sk = keygen.secret_key().clone();
        let pk = keygen.create_public_key(false);
        let rlk = keygen.create_relin_keys(false);
        let glk_default = keygen.create_galois_keys(false);
        let all: Vec<usize> = (0..ps.n).map(|i| 2 * i + 1).collect();
        let glk_all = keygen.create_galois_keys_from_elts(&all, false);
        let encryptor = Encryptor::new(ctx.clone()).set_public_key(pk.clone()).set_secret_key(sk.clone());
        let decryptor = Decryptor::new(ctx.clone(), sk.clone());
        let evaluator = Evaluator::new(ctx.clone());
        let (batch, ckks) = if ps.scheme == SchemeType::CKKS {
            (None, Some(CKKSEncoder::new(ctx.clone())))
        } else {
            (Some(BatchEncoder::new(ctx.clone())), None)
        };
        let mut level_ids = vec![];
        let mut cd = ctx.first_context_data();
        while let Some(c) = cd {
            level_ids.push(*c.parms_id());
            cd = c.next_context_data();
        }
        level_ids.reverse();
        for (i, id) in level_ids.iter().enumerate() {
            assert_eq!(ctx.get_context_data(id).unwrap().chain_index(), i);
        }
        Suite { ps: ps.clone(), ctx, keygen, sk, pk, rlk, glk_default, glk_all, encryptor, decryptor, evaluator, batch, ckks, level_ids }
    }
    pub fn first(&self) -> usize {
        self.level_ids.len() - 1
    }
    pub fn level_of(&self, id: &ParmsID) -> Option<usize> {
        self.level_ids.iter().position(|x| x == id)
    }
    pub fn moduli_at(&self, lvl: usize) -> Vec<u64> {
        self.ctx.get_context_data(&self.level_ids[lvl]).unwrap().parms().coeff_modulus().iter().map(|m| m.value()).collect()
    }
}
