//! C13: build contexts for enumerated parameter objects and report what the library decided.
use crate::project::*;
use heathcliff::*;
use serde_json::{json, Value};

fn scheme_of(s: &str) -> SchemeType {
    match s {
        "bfv" => SchemeType::BFV,
        "bgv" => SchemeType::BGV,
        "ckks" => SchemeType::CKKS,
        _ => SchemeType::None,
    }
}

fn words_to_string(w: &[u64]) -> String {
    // decimal string of a little-endian multi-word integer (for values beyond u64 the python side composes the words)
    if w.len() == 1 {
        return w[0].to_string();
    }
    format!("words:{}", w.iter().map(|x| x.to_string()).collect::<Vec<_>>().join(","))
}

fn id_hex(id: &ParmsID) -> String {
    id.iter().map(|w| format!("{:016x}", w)).collect::<Vec<_>>().join("")
}

fn level_json(ctx: &HeContext, cd: &ContextData, ckks: bool) -> Value {
    let moduli: Vec<u64> = cd.parms().coeff_modulus().iter().map(|m| m.value()).collect();
    let mut j = json!({
        "moduli": moduli, "index": cd.chain_index(), "set": cd.qualifiers().parameters_set(),
        "total": words_to_string(cd.total_coeff_modulus()), "total_bits": cd.total_coeff_modulus_bit_count(),
        "next_index": cd.next_context_data().map(|n| n.chain_index() as i64).unwrap_or(-1),
        "prev_index": cd.prev_context_data().map(|n| n.chain_index() as i64).unwrap_or(-1),
        "id": id_hex(cd.parms_id()),
        "registered": ctx.get_context_data(cd.parms_id()).is_some(),
    });
    if ckks {
        j["upper_half_threshold"] = json!(words_to_string(cd.upper_half_threshold()));
    } else {
        j["q_mod_t"] = json!(cd.coeff_modulus_mod_plain_modulus());
        j["q_div_t"] = json!(cd.coeff_div_plain_modulus().iter().map(|o| o.operand).collect::<Vec<_>>());
        j["plain_thr"] = json!(cd.plain_upper_half_threshold());
        let t = cd.parms().plain_modulus().value();
        if moduli.iter().all(|q| *q > t) {
            j["plain_inc"] = json!(cd.plain_upper_half_increment());
        } else {
            j["plain_inc_wide"] = json!(words_to_string(cd.plain_upper_half_increment()));
        }
    }
    j
}

/// build through the public builder; `order` permutes the setter calls (independent parties need not agree on it)
fn build_in(p: &Value, order: usize) -> Result<EncryptionParameters, String> {
    guarded(|| {
        let scheme = scheme_of(p["scheme"].as_str().unwrap());
        let moduli: Vec<Modulus> = p["moduli"].as_array().unwrap().iter().map(|m| Modulus::new(m.as_u64().unwrap())).collect();
        let n = p["n"].as_u64().unwrap() as usize;
        let t = p["t"].as_u64().unwrap();
        let special = p["special_enc"].as_bool().unwrap();
        let mut parms = EncryptionParameters::new(scheme);
        let steps: [usize; 4] = match order {
            0 => [0, 1, 2, 3],
            1 => [1, 2, 3, 0],
            2 => [2, 3, 0, 1],
            _ => [3, 1, 0, 2],
        };
        for st in steps {
            parms = match st {
                0 => parms.set_poly_modulus_degree(n),
                1 => parms.set_coeff_modulus(&moduli),
                2 => {
                    if scheme != SchemeType::CKKS {
                        parms.set_plain_modulus_u64(t)
                    } else {
                        parms
                    }
                }
                _ => parms.set_use_special_prime_for_encryption(special),
            };
        }
        parms
    })
}
fn build(p: &Value) -> Result<EncryptionParameters, String> {
    build_in(p, 0)
}

fn describe(ctx: &HeContext, ckks: bool) -> Value {
    let key = ctx.key_context_data().unwrap();
    let mut levels = vec![];
    let mut cd = ctx.first_context_data();
    let mut guard = 0;
    while let Some(c) = cd {
        levels.push(level_json(ctx, &c, ckks));
        cd = c.next_context_data();
        guard += 1;
        if guard > 70 {
            break;
        }
    }
    let first = ctx.first_context_data().unwrap();
    json!({
        "set": ctx.parameters_set(),
        "error": format!("{:?}", first.qualifiers().parameter_error),
        "key": {"moduli": key.parms().coeff_modulus().iter().map(|m| m.value()).collect::<Vec<_>>(), "index": key.chain_index(), "id": id_hex(key.parms_id())},
        "first_id": id_hex(ctx.first_parms_id()), "last_id": id_hex(ctx.last_parms_id()),
        "levels": levels, "using_keyswitching": ctx.using_keyswitching(),
    })
}

pub fn one(p: &Value) -> Value {
    let mut ev = p.clone();
    ev["ev"] = json!("parm");
    let parms = match build(p) {
        Ok(x) => x,
        Err(e) => {
            ev["builder_refused"] = json!(e);
            return ev;
        }
    };
    let sec = if p["sec"].as_str().unwrap() == "tc128" { SecurityLevel::Tc128 } else { SecurityLevel::None };
    let expand = p["expand"].as_bool().unwrap();
    let ckks = p["scheme"].as_str().unwrap() == "ckks";
    let r = guarded(|| {
        let ctx = HeContext::new(parms.clone(), expand, sec);
        describe(&ctx, ckks)
    });
    match r {
        Err(e) => {
            ev["panic"] = json!(true);
            ev["detail"] = json!(e);
            ev["set"] = json!(false);
            ev["error"] = json!("None");
        }
        Ok(d) => {
            ev["panic"] = json!(false);
            for (k, v) in d.as_object().unwrap() {
                ev[k] = v.clone();
            }
            ev["id"] = d["key"]["id"].clone();
            if d["set"].as_bool().unwrap() {
                // reproducibility: a second build and a build from the serialized parameters agree level by level
                let again = guarded(|| describe(&HeContext::new(parms.clone(), expand, sec), ckks));
                ev["rebuild_same"] = json!(matches!(&again, Ok(a) if a["levels"] == d["levels"] && a["key"] == d["key"]));
                let ser = guarded(|| {
                    let mut buf = vec![];
                    Serializable::serialize(&parms, &mut buf).unwrap();
                    let p2 = <EncryptionParameters as Serializable>::deserialize(&mut &buf[..]).unwrap();
                    describe(&HeContext::new(p2, expand, sec), ckks)
                });
                ev["serialized_same"] = json!(matches!(&ser, Ok(a) if a["levels"] == d["levels"] && a["key"] == d["key"]));
                // parties calling the builder's setters in another order agree on every level
                let mut order_same = true;
                for order in 1..4 {
                    let other = guarded(|| describe(&HeContext::new(build_in(p, order).unwrap(), expand, sec), ckks));
                    if !matches!(&other, Ok(a) if a["levels"] == d["levels"] && a["key"] == d["key"]) {
                        order_same = false;
                    }
                }
                ev["order_same"] = json!(order_same);
            }
        }
    }
    ev
}

pub fn main(args: &[String]) {
    silence_panics();
    use std::io::BufRead;
    match args[0].as_str() {
        "build" => {
            let f = std::io::BufReader::new(std::fs::File::open(&args[1]).unwrap());
            for line in f.lines() {
                let p: Value = serde_json::from_str(&line.unwrap()).unwrap();
                println!("{}", one(&p));
            }
        }
        "gen" => {
            // CoeffModulus::create / PlainModulus::batching for the requested degrees and bit sizes
            let f = std::io::BufReader::new(std::fs::File::open(&args[1]).unwrap());
            for line in f.lines() {
                let p: Value = serde_json::from_str(&line.unwrap()).unwrap();
                let n = p["n"].as_u64().unwrap() as usize;
                let bits: Vec<usize> = p["bits"].as_array().unwrap().iter().map(|b| b.as_u64().unwrap() as usize).collect();
                let r = guarded(|| {
                    if p["kind"].as_str().unwrap() == "batching" {
                        PlainModulus::batching_multiple(n, bits.clone()).iter().map(|m| m.value()).collect::<Vec<_>>()
                    } else {
                        CoeffModulus::create(n, bits.clone()).iter().map(|m| m.value()).collect::<Vec<_>>()
                    }
                });
                match r {
                    Ok(primes) => println!("{}", json!({"ev": "gen", "n": n, "bits": bits, "kind": p["kind"], "primes": primes, "panic": false})),
                    Err(e) => println!("{}", json!({"ev": "gen", "n": n, "bits": bits, "kind": p["kind"], "primes": [], "panic": true, "detail": e})),
                }
            }
        }
        "isprime" => {
            // Modulus::is_prime (the flag computed by Modulus::new) and util::is_prime for the listed values
            let f = std::io::BufReader::new(std::fs::File::open(&args[1]).unwrap());
            for line in f.lines() {
                let v: u64 = line.unwrap().trim().parse().unwrap();
                let r = guarded(|| {
                    let m = Modulus::new(v);
                    (m.is_prime(), heathcliff::util::is_prime(&m))
                });
                match r {
                    Ok((a, b)) => println!("{}", json!({"ev": "isprime", "v": v.to_string(), "flag": a, "direct": b, "panic": false})),
                    Err(e) => println!("{}", json!({"ev": "isprime", "v": v.to_string(), "flag": false, "direct": false, "panic": true, "detail": e})),
                }
            }
        }
        "defaults" => {
            // CoeffModulus::max_bit_count / bfv_default for every standard and some non-standard degrees
            for n in [512usize, 1024, 2048, 4096, 8192, 16384, 32768, 65536, 3000, 0] {
                for (sn, sl) in [("none", SecurityLevel::None), ("tc128", SecurityLevel::Tc128), ("tc192", SecurityLevel::Tc192), ("tc256", SecurityLevel::Tc256)] {
                    let mb = guarded(|| CoeffModulus::max_bit_count(n, sl));
                    let d = guarded(|| CoeffModulus::bfv_default(n, sl).iter().map(|m| m.value()).collect::<Vec<u64>>());
                    println!("{}", json!({"ev": "default", "n": n, "sec": sn, "maxbits": mb.clone().unwrap_or(usize::MAX) as u64, "maxbits_panic": mb.is_err(),
                        "panic": d.is_err(), "primes": d.unwrap_or_default().iter().map(|x| x.to_string()).collect::<Vec<_>>()}));
                }
            }
        }
        _ => panic!("c13 build|gen|isprime <file>|defaults"),
    }
}
