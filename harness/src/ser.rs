//! Serialization binding (C14, C15): a catalogue of serializable objects, each described by its abstract
//! shape (Serialize.tla), serialized through recording / scripted / truncated streams.
use crate::project::*;
use crate::psets::*;
use heathcliff::app::matmul::cipher3d::{Cipher3d, Plain3d};
use heathcliff::app::matmul::{Cipher1d, Cipher2d, Plain1d, Plain2d};
use heathcliff::*;
use serde_json::{json, Value};
use std::io::{Read, Write};

// ---------------------------------------------------------------------------------------------
// streams
// ---------------------------------------------------------------------------------------------
/// records the length of every write call
pub struct RecWriter {
    pub buf: Vec<u8>,
    pub calls: Vec<usize>,
}
impl Write for RecWriter {
    fn write(&mut self, b: &[u8]) -> std::io::Result<usize> {
        self.calls.push(b.len());
        self.buf.extend_from_slice(b);
        Ok(b.len())
    }
    fn flush(&mut self) -> std::io::Result<()> {
        Ok(())
    }
}

/// obeys a script: caps[i] = acceptance limit of call i (1-based), fail_at = call that errors (0 = never)
pub struct ScriptWriter {
    pub buf: Vec<u8>,
    pub caps: Vec<usize>,
    pub fail_at: usize,
    pub calls: usize,
}
impl Write for ScriptWriter {
    fn write(&mut self, b: &[u8]) -> std::io::Result<usize> {
        self.calls += 1;
        if self.calls == self.fail_at {
            return Err(std::io::Error::new(std::io::ErrorKind::Other, "scripted failure"));
        }
        let cap = if self.calls <= self.caps.len() { self.caps[self.calls - 1] } else { usize::MAX };
        let n = b.len().min(cap);
        self.buf.extend_from_slice(&b[..n]);
        Ok(n)
    }
    fn flush(&mut self) -> std::io::Result<()> {
        Ok(())
    }
}

pub struct CountReader<'a> {
    pub data: &'a [u8],
    pub pos: usize,
}
impl<'a> Read for CountReader<'a> {
    fn read(&mut self, b: &mut [u8]) -> std::io::Result<usize> {
        let n = b.len().min(self.data.len() - self.pos);
        b[..n].copy_from_slice(&self.data[self.pos..self.pos + n]);
        self.pos += n;
        Ok(n)
    }
}

fn rle(calls: &[usize]) -> Vec<(usize, usize)> {
    let mut out: Vec<(usize, usize)> = vec![];
    for &c in calls {
        if let Some(l) = out.last_mut() {
            if l.0 == c {
                l.1 += 1;
                continue;
            }
        }
        out.push((c, 1));
    }
    out
}

// ---------------------------------------------------------------------------------------------
// catalogue
// ---------------------------------------------------------------------------------------------
type SerFn<'a> = Box<dyn Fn(&HeContext, &mut dyn Write) -> std::io::Result<usize> + 'a>;
/// deserialize from the bytes in the given context; returns (bytes consumed, equal to the expected object)
type DeFn<'a> = Box<dyn Fn(&HeContext, &[u8]) -> std::io::Result<(usize, bool)> + 'a>;

pub struct Case<'a> {
    pub name: String,
    pub shape: Value,
    pub ser: SerFn<'a>,
    pub size: Box<dyn Fn(&HeContext) -> usize + 'a>,
    pub de: DeFn<'a>,
    /// follow-up use of the restored object equals follow-up use of the expanded original
    pub interchange: Box<dyn Fn(&Suite, &[u8]) -> bool + 'a>,
}

fn limits_of(s: &Suite, lvl_id: &ParmsID) -> Vec<usize> {
    s.ctx.get_context_data(lvl_id).unwrap().parms().coeff_modulus().iter().map(|m| (m.bit_count() + 7) / 8).collect()
}

fn ct_shape(s: &Suite, c: &Ciphertext, fmt: &str, nterms: usize) -> Value {
    json!({"k": "ct", "fmt": fmt, "scheme": scheme_name(s.ps.scheme), "size": c.size(), "n": s.ps.n,
           "limits": limits_of(s, c.parms_id()), "seeded": is_seeded(c), "nterms": nterms})
}

fn expand_ct(s: &Suite, c: &Ciphertext) -> Ciphertext {
    if is_seeded(c) {
        c.clone().expand_seed(&s.ctx)
    } else {
        c.clone()
    }
}

fn ct_case<'a>(s: &'a Suite, name: &str, c: Ciphertext, fmt: &'static str, terms: Vec<usize>) -> Case<'a> {
    let shape = ct_shape(s, &c, fmt, terms.len());
    let expected = {
        let mut e = expand_ct(s, &c);
        if fmt == "terms" {
            // selected coefficients of polynomial 0 survive (in coefficient representation), the others become zero
            let k = e.coeff_modulus_size();
            let n = e.poly_modulus_degree();
            let cd = s.ctx.get_context_data(e.parms_id()).unwrap();
            let tables = cd.small_ntt_tables();
            for j in 0..k {
                let comp = e.poly_component_mut(0, j);
                if c.is_ntt_form() {
                    heathcliff::verif::polymod::intt(comp, &tables[j]);
                }
                for i in 0..n {
                    if !terms.contains(&i) {
                        comp[i] = 0;
                    }
                }
                if c.is_ntt_form() {
                    heathcliff::verif::polymod::ntt(comp, &tables[j]);
                }
            }
        }
        e
    };
    let c1 = c.clone();
    let c2 = c.clone();
    let t1 = terms.clone();
    let t2 = terms.clone();
    let t3 = terms.clone();
    let exp1 = expected.clone();
    let exp2 = expected.clone();
    Case {
        name: name.to_string(),
        shape,
        ser: Box::new(move |ctx, mut w| match fmt {
            "compact" => SerializableWithHeContext::serialize(&c1, ctx, &mut w),
            "full" => c1.serialize_full(ctx, &mut w),
            _ => c1.serialize_terms(ctx, &t1, &mut w),
        }),
        size: Box::new(move |ctx| match fmt {
            "compact" => SerializableWithHeContext::serialized_size(&c2, ctx),
            "full" => c2.serialized_full_size(ctx),
            _ => c2.serialized_terms_size(ctx, t2.len()),
        }),
        de: Box::new(move |ctx, bytes| {
            let mut r = CountReader { data: bytes, pos: 0 };
            let d = match fmt {
                "compact" => <Ciphertext as SerializableWithHeContext>::deserialize(ctx, &mut r)?,
                "full" => Ciphertext::deserialize_full(ctx, &mut r)?,
                _ => Ciphertext::deserialize_terms(ctx, &t3, &mut r)?,
            };
            Ok((r.pos, ct_bytes_eq(&d, &exp1)))
        }),
        interchange: Box::new(move |s, bytes| {
            let mut r = CountReader { data: bytes, pos: 0 };
            let d = match fmt {
                "compact" => <Ciphertext as SerializableWithHeContext>::deserialize(&s.ctx, &mut r),
                "full" => Ciphertext::deserialize_full(&s.ctx, &mut r),
                _ => return true,
            };
            match d {
                Ok(d) => match (guarded(|| s.evaluator.add_new(&d, &d)), guarded(|| s.evaluator.add_new(&exp2, &exp2))) {
                    (Ok(x), Ok(y)) => ct_bytes_eq(&x, &y),
                    _ => false,
                },
                Err(_) => false,
            }
        }),
    }
}

fn pk_eq(a: &PublicKey, b: &PublicKey) -> bool {
    ct_bytes_eq(a.as_ciphertext(), b.as_ciphertext())
}
fn ksk_eq(a: &KSwitchKeys, b: &KSwitchKeys) -> bool {
    a.parms_id() == b.parms_id()
        && a.keys().len() == b.keys().len()
        && a.keys().iter().zip(b.keys().iter()).all(|(x, y)| x.len() == y.len() && x.iter().zip(y.iter()).all(|(p, q)| pk_eq(p, q)))
}
fn ksk_shape(s: &Suite, k: &KSwitchKeys) -> Value {
    json!({"k": "ksk", "keys": k.keys().iter().map(|v| v.iter().map(|p| ct_shape(s, p.as_ciphertext(), "compact", 0)).collect::<Vec<_>>()).collect::<Vec<_>>()})
}

fn pt_eq(a: &Plaintext, b: &Plaintext) -> bool {
    pt_bytes_eq(a, b)
}

pub fn catalogue<'a>(s: &'a Suite, rng_seed: u64) -> Vec<Case<'a>> {
    let mut cases: Vec<Case<'a>> = vec![];
    let n = s.ps.n;
    let ckks = s.ps.scheme == SchemeType::CKKS;
    let first = s.first();
    // plaintexts
    let mk_plain = |k: u64, lvl: usize| -> Plaintext {
        if ckks {
            let vals: Vec<num_complex::Complex<f64>> = (0..n / 2).map(|i| num_complex::Complex::new((i as f64) + k as f64, -(k as f64))).collect();
            s.ckks.as_ref().unwrap().encode_c64_array_new(&vals, Some(s.level_ids[lvl]), 2f64.powi(20))
        } else {
            let vals: Vec<u64> = (0..n).map(|i| (i as u64 * 3 + k + rng_seed) % s.ps.t).collect();
            s.batch.as_ref().unwrap().encode_polynomial_new(&vals)
        }
    };
    // parameters (with and without the special-prime-for-encryption flag)
    for (nm, p) in [("parms", s.ps.params()), ("parms_special", s.ps.params().set_use_special_prime_for_encryption(true))] {
        let p2 = p.clone();
        let p3 = p.clone();
        cases.push(Case {
            name: nm.into(),
            shape: json!({"k": "parms", "scheme": scheme_name(s.ps.scheme), "nmod": s.ps.primes.len()}),
            ser: Box::new(move |_, mut w| Serializable::serialize(&p, &mut w)),
            size: Box::new(move |_| Serializable::serialized_size(&p2)),
            de: Box::new(move |_, b| {
                let mut r = CountReader { data: b, pos: 0 };
                let d = <EncryptionParameters as Serializable>::deserialize(&mut r)?;
                let same = d.parms_id() == p3.parms_id()
                    && d.scheme() == p3.scheme()
                    && d.poly_modulus_degree() == p3.poly_modulus_degree()
                    && d.coeff_modulus().iter().map(|m| m.value()).collect::<Vec<_>>() == p3.coeff_modulus().iter().map(|m| m.value()).collect::<Vec<_>>()
                    && d.plain_modulus().value() == p3.plain_modulus().value()
                    && d.use_special_prime_for_encryption() == p3.use_special_prime_for_encryption();
                // a context built from the restored parameters has the same levels
                let ids = |q: &EncryptionParameters| {
                    let c = HeContext::new(q.clone(), true, SecurityLevel::None);
                    (*c.key_parms_id(), *c.first_parms_id(), *c.last_parms_id())
                };
                Ok((r.pos, same && ids(&d) == ids(&p3)))
            }),
            interchange: Box::new(|_, _| true),
        });
    }
    for (i, lvl) in [(0u64, first), (1, 0)] {
        let p = mk_plain(i, lvl);
        let (p1, p2, p3) = (p.clone(), p.clone(), p.clone());
        cases.push(Case {
            name: format!("plain{}", i),
            shape: json!({"k": "pt", "len": p.data().len()}),
            ser: Box::new(move |_, mut w| Serializable::serialize(&p1, &mut w)),
            size: Box::new(move |_| Serializable::serialized_size(&p2)),
            de: Box::new(move |_, b| {
                let mut r = CountReader { data: b, pos: 0 };
                let d = <Plaintext as Serializable>::deserialize(&mut r)?;
                Ok((r.pos, pt_eq(&d, &p3)))
            }),
            interchange: Box::new(|_, _| true),
        });
    }
    {
        let k = s.sk.clone();
        let (k1, k2, k3) = (k.clone(), k.clone(), k.clone());
        cases.push(Case {
            name: "secret_key".into(),
            shape: json!({"k": "pt", "len": k.data().len()}),
            ser: Box::new(move |_, mut w| Serializable::serialize(&k1, &mut w)),
            size: Box::new(move |_| Serializable::serialized_size(&k2)),
            de: Box::new(move |_, b| {
                let mut r = CountReader { data: b, pos: 0 };
                let d = <SecretKey as Serializable>::deserialize(&mut r)?;
                Ok((r.pos, pt_eq(d.as_plaintext(), k3.as_plaintext())))
            }),
            interchange: Box::new(|_, _| true),
        });
    }
    // ciphertexts
    let fresh = s.encryptor.encrypt_new(&mk_plain(2, first));
    let seeded = s.encryptor.encrypt_symmetric_new(&mk_plain(3, first));
    let sym = {
        let mut d = Ciphertext::new();
        s.encryptor.encrypt_symmetric(&mk_plain(4, first), &mut d);
        d
    };
    let prod = s.evaluator.multiply_new(&fresh, &sym);
    let low = if first > 0 { Some(s.evaluator.mod_switch_to_new(&fresh, &s.level_ids[0])) } else { None };
    let flipped = if s.ps.scheme == SchemeType::BFV { s.evaluator.transform_to_ntt_new(&fresh) } else { s.evaluator.transform_from_ntt_new(&fresh) };
    let mut cts: Vec<(&str, Ciphertext)> = vec![("fresh", fresh.clone()), ("seeded", seeded.clone()), ("sym", sym.clone()), ("prod3", prod.clone()), ("flipped", flipped)];
    if let Some(l) = low {
        cts.push(("low", l));
    }
    if s.ps.scheme != SchemeType::CKKS {
        let mut big = prod.clone();
        for _ in 0..2 {
            big = s.evaluator.multiply_new(&big, &prod);
        }
        cts.push(("size7", big));
    }
    for (nm, c) in &cts {
        cases.push(ct_case(s, &format!("ct_{}_compact", nm), c.clone(), "compact", vec![]));
        cases.push(ct_case(s, &format!("ct_{}_full", nm), c.clone(), "full", vec![]));
        for (ti, terms) in [vec![], (0..n).collect::<Vec<_>>(), vec![0], vec![n - 1, 1]].into_iter().enumerate() {
            cases.push(ct_case(s, &format!("ct_{}_terms{}", nm, ti), c.clone(), "terms", terms));
        }
    }
    // keys
    for (nm, pk) in [("pk", s.keygen.create_public_key(false)), ("pk_seeded", s.keygen.create_public_key(true))] {
        let expected = PublicKey::new(expand_ct(s, pk.as_ciphertext()));
        let (a, b) = (pk.clone(), pk.clone());
        let e2 = expected.clone();
        cases.push(Case {
            name: nm.into(),
            shape: ct_shape(s, pk.as_ciphertext(), "compact", 0),
            ser: Box::new(move |ctx, mut w| SerializableWithHeContext::serialize(&a, ctx, &mut w)),
            size: Box::new(move |ctx| SerializableWithHeContext::serialized_size(&b, ctx)),
            de: Box::new(move |ctx, bytes| {
                let mut r = CountReader { data: bytes, pos: 0 };
                let d = <PublicKey as SerializableWithHeContext>::deserialize(ctx, &mut r)?;
                Ok((r.pos, pk_eq(&d, &expected)))
            }),
            interchange: Box::new(move |s, bytes| {
                let mut r = CountReader { data: bytes, pos: 0 };
                match <PublicKey as SerializableWithHeContext>::deserialize(&s.ctx, &mut r) {
                    Ok(d) => guarded(|| Encryptor::new(s.ctx.clone()).set_public_key(d)).is_ok() && guarded(|| Encryptor::new(s.ctx.clone()).set_public_key(e2.clone())).is_ok(),
                    Err(_) => false,
                }
            }),
        });
    }
    let other_sk = KeyGenerator::new(s.ctx.clone()).secret_key().clone();
    let ksks: Vec<(&str, KSwitchKeys)> = vec![
        ("relin", s.keygen.create_relin_keys(false).as_kswitch_keys().clone()),
        ("relin_seeded", s.keygen.create_relin_keys(true).as_kswitch_keys().clone()),
        ("galois_default", s.keygen.create_galois_keys(false).as_kswitch_keys().clone()),
        ("galois_seeded_steps", s.keygen.create_galois_keys_from_steps(&[1], true).as_kswitch_keys().clone()),
        ("kswitch", s.keygen.create_keyswitching_key(&other_sk, false)),
        ("kswitch_seeded", s.keygen.create_keyswitching_key(&other_sk, true)),
    ];
    for (nm, k) in ksks {
        let expected = k.clone().expand_seed_if_any(&s.ctx);
        let (a, b) = (k.clone(), k.clone());
        let e2 = expected.clone();
        let kind = nm.to_string();
        let prod2 = prod.clone();
        let fresh2 = fresh.clone();
        cases.push(Case {
            name: nm.into(),
            shape: ksk_shape(s, &k),
            ser: Box::new(move |ctx, mut w| SerializableWithHeContext::serialize(&a, ctx, &mut w)),
            size: Box::new(move |ctx| SerializableWithHeContext::serialized_size(&b, ctx)),
            de: Box::new(move |ctx, bytes| {
                let mut r = CountReader { data: bytes, pos: 0 };
                let d = <KSwitchKeys as SerializableWithHeContext>::deserialize(ctx, &mut r)?;
                Ok((r.pos, ksk_eq(&d, &expected)))
            }),
            interchange: Box::new(move |s, bytes| {
                let mut r = CountReader { data: bytes, pos: 0 };
                let d = match <KSwitchKeys as SerializableWithHeContext>::deserialize(&s.ctx, &mut r) {
                    Ok(d) => d,
                    Err(_) => return false,
                };
                if kind.starts_with("relin") {
                    let (x, y) = (guarded(|| s.evaluator.relinearize_new(&prod2, &RelinKeys::new(d))), guarded(|| s.evaluator.relinearize_new(&prod2, &RelinKeys::new(e2.clone()))));
                    matches!((x, y), (Ok(a), Ok(b)) if ct_bytes_eq(&a, &b))
                } else if kind.starts_with("galois") {
                    let (x, y) = (guarded(|| s.evaluator.apply_galois_new(&fresh2, 3, &GaloisKeys::new(d))), guarded(|| s.evaluator.apply_galois_new(&fresh2, 3, &GaloisKeys::new(e2.clone()))));
                    matches!((x, y), (Ok(a), Ok(b)) if ct_bytes_eq(&a, &b))
                } else {
                    let (x, y) = (guarded(|| s.evaluator.apply_keyswitching_new(&fresh2, &d)), guarded(|| s.evaluator.apply_keyswitching_new(&fresh2, &e2)));
                    matches!((x, y), (Ok(a), Ok(b)) if ct_bytes_eq(&a, &b))
                }
            }),
        });
    }
    // containers
    let c1d = |k: usize, seeded_items: bool| -> Cipher1d {
        Cipher1d::new((0..k).map(|i| if seeded_items { s.encryptor.encrypt_symmetric_new(&mk_plain(i as u64, first)) } else { s.encryptor.encrypt_new(&mk_plain(i as u64, first)) }).collect())
    };
    let eq1 = |a: &Cipher1d, b: &Cipher1d| a.data.len() == b.data.len() && a.data.iter().zip(b.data.iter()).all(|(x, y)| ct_bytes_eq(x, y));
    let shape1 = |c: &Cipher1d, fmt: &str, nt: usize| json!({"k": "vec", "items": c.data.iter().map(|x| ct_shape(s, x, fmt, nt)).collect::<Vec<_>>()});
    for (nm, c) in [("cipher1d_0", c1d(0, false)), ("cipher1d_3", c1d(3, false)), ("cipher1d_2_seeded", c1d(2, true))] {
        let expected = c.clone().expand_seed(&s.ctx);
        let (a, b) = (c.clone(), c.clone());
        cases.push(Case {
            name: nm.into(),
            shape: shape1(&c, "compact", 0),
            ser: Box::new(move |ctx, mut w| SerializableWithHeContext::serialize(&a, ctx, &mut w)),
            size: Box::new(move |ctx| SerializableWithHeContext::serialized_size(&b, ctx)),
            de: Box::new(move |ctx, bytes| {
                let mut r = CountReader { data: bytes, pos: 0 };
                let d = <Cipher1d as SerializableWithHeContext>::deserialize(ctx, &mut r)?;
                Ok((r.pos, eq1(&d, &expected)))
            }),
            interchange: Box::new(|_, _| true),
        });
    }
    {
        let c = Cipher2d::new_1ds(vec![c1d(2, false), c1d(0, false), c1d(1, true)]);
        let expected = c.clone().expand_seed(&s.ctx);
        let (a, b) = (c.clone(), c.clone());
        cases.push(Case {
            name: "cipher2d".into(),
            shape: json!({"k": "vec", "items": c.data.iter().map(|x| shape1(x, "compact", 0)).collect::<Vec<_>>()}),
            ser: Box::new(move |ctx, mut w| SerializableWithHeContext::serialize(&a, ctx, &mut w)),
            size: Box::new(move |ctx| SerializableWithHeContext::serialized_size(&b, ctx)),
            de: Box::new(move |ctx, bytes| {
                let mut r = CountReader { data: bytes, pos: 0 };
                let d = <Cipher2d as SerializableWithHeContext>::deserialize(ctx, &mut r)?;
                Ok((r.pos, d.data.len() == expected.data.len() && d.data.iter().zip(expected.data.iter()).all(|(x, y)| eq1(x, y))))
            }),
            interchange: Box::new(|_, _| true),
        });
        let terms = vec![0usize, n - 1];
        let c = Cipher2d::new_1ds(vec![c1d(2, false), c1d(1, true)]);
        let (a, b) = (c.clone(), c.clone());
        let (t1, t2, t3) = (terms.clone(), terms.clone(), terms.clone());
        let expected2: Vec<Vec<Ciphertext>> = c.data.iter().map(|r| r.data.iter().map(|x| {
            // expected object of the terms format, computed by the single-ciphertext case above
            let mut buf = RecWriter { buf: vec![], calls: vec![] };
            x.serialize_terms(&s.ctx, &t3, &mut buf).unwrap();
            let mut rd = CountReader { data: &buf.buf, pos: 0 };
            Ciphertext::deserialize_terms(&s.ctx, &t3, &mut rd).unwrap()
        }).collect()).collect();
        cases.push(Case {
            name: "cipher2d_terms".into(),
            shape: json!({"k": "vec", "items": c.data.iter().map(|x| shape1(x, "terms", terms.len())).collect::<Vec<_>>()}),
            ser: Box::new(move |ctx, mut w| a.serialize_terms(ctx, &t1, &mut w)),
            size: Box::new(move |ctx| b.serialized_terms_size(ctx, t2.len())),
            de: Box::new(move |ctx, bytes| {
                let mut r = CountReader { data: bytes, pos: 0 };
                let d = Cipher2d::deserialize_terms(ctx, &terms, &mut r)?;
                Ok((r.pos, d.data.len() == expected2.len() && d.data.iter().zip(expected2.iter()).all(|(x, y)| x.data.len() == y.len() && x.data.iter().zip(y.iter()).all(|(p, q)| ct_bytes_eq(p, q)))))
            }),
            interchange: Box::new(|_, _| true),
        });
    }
    {
        let c = Cipher3d::new_2ds(vec![Cipher2d::new_1ds(vec![c1d(1, false)]), Cipher2d::new_1ds(vec![])]);
        let expected = c.clone().expand_seed(&s.ctx);
        let (a, b) = (c.clone(), c.clone());
        cases.push(Case {
            name: "cipher3d".into(),
            shape: json!({"k": "vec", "items": c.data.iter().map(|y| json!({"k": "vec", "items": y.data.iter().map(|x| shape1(x, "compact", 0)).collect::<Vec<_>>()})).collect::<Vec<_>>()}),
            ser: Box::new(move |ctx, mut w| SerializableWithHeContext::serialize(&a, ctx, &mut w)),
            size: Box::new(move |ctx| SerializableWithHeContext::serialized_size(&b, ctx)),
            de: Box::new(move |ctx, bytes| {
                let mut r = CountReader { data: bytes, pos: 0 };
                let d = <Cipher3d as SerializableWithHeContext>::deserialize(ctx, &mut r)?;
                let eq = d.data.len() == expected.data.len()
                    && d.data.iter().zip(expected.data.iter()).all(|(x, y)| x.data.len() == y.data.len() && x.data.iter().zip(y.data.iter()).all(|(p, q)| eq1(p, q)));
                Ok((r.pos, eq))
            }),
            interchange: Box::new(|_, _| true),
        });
    }
    // plaintext containers
    {
        let p1 = Plain1d::new(vec![mk_plain(1, first), mk_plain(2, first)]);
        let p2 = Plain2d::new_1ds(vec![p1.clone(), Plain1d::new(vec![])]);
        let p3 = Plain3d::new_2ds(vec![p2.clone()]);
        let sh1 = |p: &Plain1d| json!({"k": "vec", "items": p.data.iter().map(|x| json!({"k": "pt", "len": x.data().len()})).collect::<Vec<_>>()});
        let sh2 = |p: &Plain2d| json!({"k": "vec", "items": p.data.iter().map(|x| sh1(x)).collect::<Vec<_>>()});
        let eqp1 = |a: &Plain1d, b: &Plain1d| a.data.len() == b.data.len() && a.data.iter().zip(b.data.iter()).all(|(x, y)| pt_eq(x, y));
        {
            let (a, b, c) = (p1.clone(), p1.clone(), p1.clone());
            cases.push(Case {
                name: "plain1d".into(),
                shape: sh1(&p1),
                ser: Box::new(move |_, mut w| Serializable::serialize(&a, &mut w)),
                size: Box::new(move |_| Serializable::serialized_size(&b)),
                de: Box::new(move |_, bytes| {
                    let mut r = CountReader { data: bytes, pos: 0 };
                    let d = <Plain1d as Serializable>::deserialize(&mut r)?;
                    Ok((r.pos, eqp1(&d, &c)))
                }),
                interchange: Box::new(|_, _| true),
            });
        }
        {
            let (a, b, c) = (p2.clone(), p2.clone(), p2.clone());
            cases.push(Case {
                name: "plain2d".into(),
                shape: sh2(&p2),
                ser: Box::new(move |_, mut w| Serializable::serialize(&a, &mut w)),
                size: Box::new(move |_| Serializable::serialized_size(&b)),
                de: Box::new(move |_, bytes| {
                    let mut r = CountReader { data: bytes, pos: 0 };
                    let d = <Plain2d as Serializable>::deserialize(&mut r)?;
                    Ok((r.pos, d.data.len() == c.data.len() && d.data.iter().zip(c.data.iter()).all(|(x, y)| eqp1(x, y))))
                }),
                interchange: Box::new(|_, _| true),
            });
        }
        {
            let (a, b, c) = (p3.clone(), p3.clone(), p3.clone());
            cases.push(Case {
                name: "plain3d".into(),
                shape: json!({"k": "vec", "items": p3.data.iter().map(|x| sh2(x)).collect::<Vec<_>>()}),
                ser: Box::new(move |_, mut w| Serializable::serialize(&a, &mut w)),
                size: Box::new(move |_| Serializable::serialized_size(&b)),
                de: Box::new(move |_, bytes| {
                    let mut r = CountReader { data: bytes, pos: 0 };
                    let d = <Plain3d as Serializable>::deserialize(&mut r)?;
                    let eq = d.data.len() == c.data.len()
                        && d.data.iter().zip(c.data.iter()).all(|(x, y)| x.data.len() == y.data.len() && x.data.iter().zip(y.data.iter()).all(|(p, q)| eqp1(p, q)));
                    Ok((r.pos, eq))
                }),
                interchange: Box::new(|_, _| true),
            });
        }
    }
    // single polynomial
    {
        let poly = fresh.poly(1).to_vec();
        let id = *fresh.parms_id();
        let (a, b) = (poly.clone(), poly.clone());
        cases.push(Case {
            name: "polynomial".into(),
            shape: json!({"k": "poly", "n": n, "limits": limits_of(s, &id)}),
            ser: Box::new(move |ctx, mut w| PolynomialSerializer::serialize_polynomial(ctx, &mut w, &a, id)),
            size: Box::new(move |ctx| PolynomialSerializer {}.serialized_polynomial_size(ctx, id)),
            de: Box::new(move |ctx, bytes| {
                let mut r = CountReader { data: bytes, pos: 0 };
                let d = PolynomialSerializer::deserialize_polynomial(ctx, &mut r)?;
                Ok((r.pos, d == b))
            }),
            interchange: Box::new(|_, _| true),
        });
    }
    cases
}

trait ExpandIfAny {
    fn expand_seed_if_any(self, ctx: &HeContext) -> Self;
}
impl ExpandIfAny for KSwitchKeys {
    fn expand_seed_if_any(self, ctx: &HeContext) -> Self {
        let keys: Vec<Vec<PublicKey>> = self
            .keys()
            .iter()
            .map(|v| v.iter().map(|p| if is_seeded(p.as_ciphertext()) { PublicKey::new(p.as_ciphertext().clone().expand_seed(ctx)) } else { p.clone() }).collect())
            .collect();
        KSwitchKeys::from_members(*self.parms_id(), keys)
    }
}

/// C14 events for one parameter set
pub fn layout_events(pset_name: &str, seed: u64) {
    if pset_name.starts_with("rnsp_") {
        return rnsp_layout_events(pset_name, seed);
    }
    silence_panics();
    let ps = pset(pset_name);
    let s = Suite::new(&ps);
    // a context built independently from the serialized parameters
    let mut pw = RecWriter { buf: vec![], calls: vec![] };
    Serializable::serialize(&ps.params(), &mut pw).unwrap();
    let p2 = <EncryptionParameters as Serializable>::deserialize(&mut CountReader { data: &pw.buf, pos: 0 }).unwrap();
    let ctx2 = HeContext::new(p2, true, SecurityLevel::None);
    for case in catalogue(&s, seed) {
        let mut w = RecWriter { buf: vec![], calls: vec![] };
        let returned = guarded(|| (case.ser)(&s.ctx, &mut w));
        let announced = guarded(|| (case.size)(&s.ctx));
        let (returned, ret_ok) = match returned {
            Ok(Ok(n)) => (n as i64, true),
            _ => (-1, false),
        };
        let de = guarded(|| (case.de)(&s.ctx, &w.buf));
        let (consumed, rt) = match de {
            Ok(Ok((c, e))) => (c as i64, e),
            _ => (-1, false),
        };
        let rt_other = match guarded(|| (case.de)(&ctx2, &w.buf)) {
            Ok(Ok((_, e))) => e,
            _ => false,
        };
        // two objects in one stream
        let mut twice = w.buf.clone();
        twice.extend_from_slice(&w.buf);
        let concat = match guarded(|| {
            let a = (case.de)(&s.ctx, &twice)?;
            let b = (case.de)(&s.ctx, &twice[a.0..])?;
            Ok::<_, std::io::Error>(a.1 && b.1 && a.0 == w.buf.len() && b.0 == w.buf.len())
        }) {
            Ok(Ok(v)) => v,
            _ => false,
        };
        let interchange = guarded(|| (case.interchange)(&s, &w.buf)).unwrap_or(false);
        println!(
            "{}",
            json!({"ev": "ser", "pset": pset_name, "name": case.name, "shape": case.shape, "rle": rle(&w.calls), "announced": announced.map(|x| x as i64).unwrap_or(-1),
                   "returned": returned, "returned_ok": ret_ok, "written": w.buf.len(), "consumed": consumed, "roundtrip": rt, "roundtrip_other": rt_other,
                   "concat": concat, "interchange": interchange, "calls": w.calls.len()})
        );
    }
}

/// C14 for the RNS-plaintext wrapper (src/app/rns_plain/serialize.rs): an object is the concatenation of its per-plain-modulus
/// components (shape "cat"); vectors are length-prefixed.  `hcv ser-layout rnsp_<n>_<t1,t2,..>_<bits,..> <seed>`
pub fn rnsp_layout_events(name: &str, seed: u64) {
    use heathcliff::app::rns_plain::*;
    silence_panics();
    let parts: Vec<&str> = name.split('_').collect();
    let n: usize = parts[1].parse().unwrap();
    let ts: Vec<u64> = parts[2].split(',').map(|x| x.parse().unwrap()).collect();
    let bits: Vec<usize> = parts[3].split(',').map(|x| x.parse().unwrap()).collect();
    let mk_ctx = || {
        let parms = RnspEncryptionParameters::new(SchemeType::BFV)
            .set_poly_modulus_degree(n)
            .set_plain_modulus(ts.iter().map(|&t| Modulus::new(t)).collect())
            .set_coeff_modulus(CoeffModulus::create(n, bits.clone()));
        RnspHeContext::new(parms, true, SecurityLevel::None)
    };
    let ctx = mk_ctx();
    let ctx2 = mk_ctx(); // built independently from the same parameters
    let kg = RnspKeyGenerator::new(&ctx);
    let enc = RnspBatchEncoder::new(&ctx);
    let encryptor = RnspEncryptor::new(&ctx).set_public_key(kg.create_public_key(false)).set_secret_key(kg.get_secret_key());
    let dec = RnspDecryptor::new(&ctx, kg.get_secret_key());
    let ev = RnspEvaluator::new(&ctx);
    let k = ts.len();
    let limits = |c: &HeContext, id: &ParmsID| -> Vec<usize> { c.get_context_data(id).unwrap().parms().coeff_modulus().iter().map(|m| (m.bit_count() + 7) / 8).collect() };
    let ct_sh = |c: &HeContext, x: &Ciphertext, fmt: &str, nt: usize| -> Value {
        json!({"k": "ct", "fmt": fmt, "scheme": "bfv", "size": x.size(), "n": n, "limits": limits(c, x.parms_id()), "seeded": is_seeded(x), "nterms": nt})
    };
    let cat_ct = |x: &RnspCiphertext, fmt: &str, nt: usize| -> Value {
        json!({"k": "cat", "items": x.components.iter().zip(ctx.components.iter()).map(|(c, cx)| ct_sh(cx, c, fmt, nt)).collect::<Vec<_>>()})
    };
    let ksk_sh = |c: &HeContext, kk: &KSwitchKeys| -> Value {
        json!({"k": "ksk", "keys": kk.keys().iter().map(|v| v.iter().map(|p| ct_sh(c, p.as_ciphertext(), "compact", 0)).collect::<Vec<_>>()).collect::<Vec<_>>()})
    };
    let expand = |x: &RnspCiphertext| -> RnspCiphertext { if is_seeded(&x.components[0]) { x.clone().expand_seed(&ctx) } else { x.clone() } };
    let ct_eq = |a: &RnspCiphertext, b: &RnspCiphertext| a.components.len() == b.components.len() && a.components.iter().zip(b.components.iter()).all(|(x, y)| ct_bytes_eq(x, y));
    let vals = |off: u64| -> Vec<u64> { (0..n * k).map(|i| if i % k == 0 { (i as u64 * 5 + off + seed) % ts[0] } else { 0 }).collect() };
    let decode = |x: &RnspCiphertext| -> Option<Vec<u64>> { guarded(|| enc.decode_new(&dec.decrypt_new(x))).ok() };

    // one event: ser / size / de are closures over the context so that the rebuilt context can be used too
    let emit = |name: &str, shape: Value, ser: &dyn Fn(&RnspHeContext, &mut RecWriter) -> std::io::Result<usize>, size: &dyn Fn(&RnspHeContext) -> usize,
                de: &dyn Fn(&RnspHeContext, &[u8]) -> std::io::Result<(usize, bool)>, inter: &dyn Fn(&[u8]) -> bool| {
        let mut w = RecWriter { buf: vec![], calls: vec![] };
        let returned = guarded(|| ser(&ctx, &mut w));
        let announced = guarded(|| size(&ctx));
        let (returned, ret_ok) = match returned {
            Ok(Ok(x)) => (x as i64, true),
            _ => (-1, false),
        };
        let (consumed, rt) = match guarded(|| de(&ctx, &w.buf)) {
            Ok(Ok((c, e))) => (c as i64, e),
            _ => (-1, false),
        };
        let rt_other = matches!(guarded(|| de(&ctx2, &w.buf)), Ok(Ok((_, true))));
        let mut twice = w.buf.clone();
        twice.extend_from_slice(&w.buf);
        let concat = match guarded(|| {
            let a = de(&ctx, &twice)?;
            let b = de(&ctx, &twice[a.0..])?;
            Ok::<_, std::io::Error>(a.1 && b.1 && a.0 == w.buf.len() && b.0 == w.buf.len())
        }) {
            Ok(Ok(v)) => v,
            _ => false,
        };
        let interchange = guarded(|| inter(&w.buf)).unwrap_or(false);
        println!(
            "{}",
            json!({"ev": "ser", "pset": name.split(':').next().unwrap_or(""), "name": name, "shape": shape, "rle": rle(&w.calls), "announced": announced.map(|x| x as i64).unwrap_or(-1),
                   "returned": returned, "returned_ok": ret_ok, "written": w.buf.len(), "consumed": consumed, "roundtrip": rt, "roundtrip_other": rt_other,
                   "concat": concat, "interchange": interchange, "calls": w.calls.len()})
        );
    };

    // ciphertexts: fresh asymmetric, fresh symmetric (seeded), a product of size 3
    let pa = enc.encode_new(&vals(1));
    let fresh = encryptor.encrypt_new(&pa);
    let seeded = encryptor.encrypt_symmetric_new(&pa);
    let mut prod = fresh.clone();
    let prod_ok = guarded(|| ev.multiply_inplace(&mut prod, &fresh)).is_ok();
    let mut cts: Vec<(&str, RnspCiphertext)> = vec![("fresh", fresh.clone()), ("seeded", seeded.clone())];
    if prod_ok {
        cts.push(("product", prod.clone()));
    }
    for (nm, c) in &cts {
        let expected = expand(c);
        let want = decode(&expected);
        emit(&format!("{}:ct_{}", name, nm), cat_ct(c, "compact", 0), &|cx, w| RnspSerializableWithHeContext::serialize(c, cx, w), &|cx| RnspSerializableWithHeContext::serialized_size(c, cx),
             &|cx, b| { let mut r = CountReader { data: b, pos: 0 }; let d = <RnspCiphertext as RnspSerializableWithHeContext>::deserialize(cx, &mut r)?; Ok((r.pos, ct_eq(&d, &expected))) },
             &|b| { let mut r = CountReader { data: b, pos: 0 }; match <RnspCiphertext as RnspSerializableWithHeContext>::deserialize(&ctx, &mut r) { Ok(d) => want.is_some() && decode(&d) == want, Err(_) => false } });
        // (named deviation: the wrapper's `serialize_full` delegates to the components' compact `serialize`, and `deserialize_full` to `deserialize`)
        emit(&format!("{}:ct_{}_full", name, nm), cat_ct(c, "compact", 0), &|cx, w| c.serialize_full(cx, w), &|cx| c.serialized_full_size(cx),
             &|cx, b| { let mut r = CountReader { data: b, pos: 0 }; let d = RnspCiphertext::deserialize_full(cx, &mut r)?; Ok((r.pos, ct_eq(&d, &expected))) },
             &|b| { let mut r = CountReader { data: b, pos: 0 }; match RnspCiphertext::deserialize_full(&ctx, &mut r) { Ok(d) => want.is_some() && decode(&d) == want, Err(_) => false } });
        for terms in [vec![0usize], vec![1, n - 1], (0..n).collect::<Vec<_>>()] {
            // the selected coefficients of polynomial 0 survive, the others become zero
            let want_terms = guarded(|| {
                let mut e = expected.clone();
                for (comp, cx) in e.components.iter_mut().zip(ctx.components.iter()) {
                    let kk = comp.coeff_modulus_size();
                    let cd = cx.get_context_data(comp.parms_id()).unwrap();
                    let ntt = comp.is_ntt_form();
                    for j in 0..kk {
                        let poly = comp.poly_component_mut(0, j);
                        if ntt {
                            heathcliff::verif::polymod::intt(poly, &cd.small_ntt_tables()[j]);
                        }
                        for (i, x) in poly.iter_mut().enumerate() {
                            if !terms.contains(&i) {
                                *x = 0;
                            }
                        }
                        if ntt {
                            heathcliff::verif::polymod::ntt(poly, &cd.small_ntt_tables()[j]);
                        }
                    }
                }
                e
            });
            let tl = terms.len();
            emit(&format!("{}:ct_{}_terms{}", name, nm, tl), cat_ct(c, "terms", tl), &|cx, w| c.serialize_terms(cx, &terms, w), &|cx| c.serialized_terms_size(cx, tl),
                 &|cx, b| { let mut r = CountReader { data: b, pos: 0 }; let d = RnspCiphertext::deserialize_terms(cx, &terms, &mut r)?; Ok((r.pos, matches!(&want_terms, Ok(e) if ct_eq(&d, e)))) },
                 &|b| {
                     // all terms selected: the restored ciphertext decrypts like the original
                     if tl < n { return true; }
                     let mut r = CountReader { data: b, pos: 0 };
                     match RnspCiphertext::deserialize_terms(&ctx, &terms, &mut r) { Ok(d) => want.is_some() && decode(&d) == want, Err(_) => false }
                 });
        }
    }
    // a length-prefixed vector of ciphertexts (also the empty one)
    for (nm, v) in [("vec2", vec![fresh.clone(), seeded.clone()]), ("vec0", vec![])] {
        let expected: Vec<RnspCiphertext> = v.iter().map(|c| expand(c)).collect();
        emit(&format!("{}:{}", name, nm), json!({"k": "vec", "items": v.iter().map(|c| cat_ct(c, "compact", 0)).collect::<Vec<_>>()}),
             &|cx, w| RnspSerializableWithHeContext::serialize(&v, cx, w), &|cx| RnspSerializableWithHeContext::serialized_size(&v, cx),
             &|cx, b| { let mut r = CountReader { data: b, pos: 0 }; let d = <Vec<RnspCiphertext> as RnspSerializableWithHeContext>::deserialize(cx, &mut r)?;
                        Ok((r.pos, d.len() == expected.len() && d.iter().zip(expected.iter()).all(|(x, y)| ct_eq(x, y)))) },
             &|_| true);
    }
    // keys
    for seeded_key in [false, true] {
        let tag = if seeded_key { "_seeded" } else { "" };
        let pk = kg.create_public_key(seeded_key);
        let pk_exp: Vec<Ciphertext> = pk.components.iter().zip(ctx.components.iter()).map(|(p, cx)| if is_seeded(p.as_ciphertext()) { p.as_ciphertext().clone().expand_seed(cx) } else { p.as_ciphertext().clone() }).collect();
        emit(&format!("{}:pk{}", name, tag), json!({"k": "cat", "items": pk.components.iter().zip(ctx.components.iter()).map(|(p, cx)| ct_sh(cx, p.as_ciphertext(), "compact", 0)).collect::<Vec<_>>()}),
             &|cx, w| RnspSerializableWithHeContext::serialize(&pk, cx, w), &|cx| RnspSerializableWithHeContext::serialized_size(&pk, cx),
             &|cx, b| { let mut r = CountReader { data: b, pos: 0 }; let d = <RnspPublicKey as RnspSerializableWithHeContext>::deserialize(cx, &mut r)?;
                        Ok((r.pos, d.components.len() == pk_exp.len() && d.components.iter().zip(pk_exp.iter()).all(|(x, y)| ct_bytes_eq(x.as_ciphertext(), y)))) },
             &|b| { let mut r = CountReader { data: b, pos: 0 };
                    match <RnspPublicKey as RnspSerializableWithHeContext>::deserialize(&ctx, &mut r) {
                        Ok(d) => { let e2 = RnspEncryptor::new(&ctx).set_public_key(d); decode(&e2.encrypt_new(&pa)) == Some(vals(1)) }
                        Err(_) => false } });
        let rlk = kg.create_relin_keys(seeded_key);
        let rlk_exp: Vec<KSwitchKeys> = rlk.components.iter().zip(ctx.components.iter()).map(|(r, cx)| r.as_kswitch_keys().clone().expand_seed_if_any(cx)).collect();
        let relin_want = if prod_ok { guarded(|| { let full = RnspRelinKeys::from_raw_parts(rlk_exp.iter().map(|x| RelinKeys::new(x.clone())).collect()); let mut p2 = prod.clone(); ev.relinearize_inplace(&mut p2, &full); decode(&p2) }).ok().flatten() } else { None };
        emit(&format!("{}:relin{}", name, tag), json!({"k": "cat", "items": rlk.components.iter().zip(ctx.components.iter()).map(|(r, cx)| ksk_sh(cx, r.as_kswitch_keys())).collect::<Vec<_>>()}),
             &|cx, w| RnspSerializableWithHeContext::serialize(&rlk, cx, w), &|cx| RnspSerializableWithHeContext::serialized_size(&rlk, cx),
             &|cx, b| { let mut r = CountReader { data: b, pos: 0 }; let d = <RnspRelinKeys as RnspSerializableWithHeContext>::deserialize(cx, &mut r)?;
                        Ok((r.pos, d.components.len() == rlk_exp.len() && d.components.iter().zip(rlk_exp.iter()).all(|(x, y)| ksk_eq(x.as_kswitch_keys(), y)))) },
             &|b| { if !prod_ok { return true; }
                    let mut r = CountReader { data: b, pos: 0 };
                    match <RnspRelinKeys as RnspSerializableWithHeContext>::deserialize(&ctx, &mut r) {
                        Ok(d) => { let mut p2 = prod.clone(); ev.relinearize_inplace(&mut p2, &d); relin_want.is_some() && decode(&p2) == relin_want }
                        Err(_) => false } });
        let glk = kg.create_galois_keys(seeded_key);
        let glk_exp: Vec<KSwitchKeys> = glk.components.iter().zip(ctx.components.iter()).map(|(r, cx)| r.as_kswitch_keys().clone().expand_seed_if_any(cx)).collect();
        emit(&format!("{}:galois{}", name, tag), json!({"k": "cat", "items": glk.components.iter().zip(ctx.components.iter()).map(|(r, cx)| ksk_sh(cx, r.as_kswitch_keys())).collect::<Vec<_>>()}),
             &|cx, w| RnspSerializableWithHeContext::serialize(&glk, cx, w), &|cx| RnspSerializableWithHeContext::serialized_size(&glk, cx),
             &|cx, b| { let mut r = CountReader { data: b, pos: 0 }; let d = <RnspGaloisKeys as RnspSerializableWithHeContext>::deserialize(cx, &mut r)?;
                        Ok((r.pos, d.components.len() == glk_exp.len() && d.components.iter().zip(glk_exp.iter()).all(|(x, y)| ksk_eq(x.as_kswitch_keys(), y)))) },
             &|_| true);
    }
}

/// C15: replay fault scripts. Input lines: {"name", "caps", "fail_at", "expect": {"result", "sink", "calls"}} or {"name", "truncate": k}
pub fn fault_replay(pset_name: &str, seed: u64, path: &str) {
    silence_panics();
    let ps = pset(pset_name);
    let s = Suite::new(&ps);
    let cases = catalogue(&s, seed);
    let full: std::collections::HashMap<String, Vec<u8>> = cases
        .iter()
        .map(|c| {
            let mut w = RecWriter { buf: vec![], calls: vec![] };
            (c.ser)(&s.ctx, &mut w).unwrap();
            (c.name.clone(), w.buf)
        })
        .collect();
    use std::io::BufRead;
    let f = std::io::BufReader::new(std::fs::File::open(path).unwrap());
    for line in f.lines() {
        let sc: Value = serde_json::from_str(&line.unwrap()).unwrap();
        let name = sc["name"].as_str().unwrap();
        let case = cases.iter().find(|c| c.name == name).unwrap();
        let enc = &full[name];
        if !sc["truncate"].is_null() {
            let k = sc["truncate"].as_u64().unwrap() as usize;
            let r = guarded(|| (case.de)(&s.ctx, &enc[..k]));
            let (status, detail) = match r {
                Err(p) => ("violation", format!("deserialize panicked on a stream cut at byte {} of {}: {}", k, enc.len(), p)),
                Ok(Ok((c, eq))) => {
                    if k == enc.len() && eq && c == k {
                        ("ok", String::new())
                    } else {
                        ("violation", format!("deserialize returned an object from a stream cut at byte {} of {}", k, enc.len()))
                    }
                }
                Ok(Err(_)) => {
                    if k < enc.len() {
                        ("ok", String::new())
                    } else {
                        ("violation", "deserialize failed on the complete encoding".to_string())
                    }
                }
            };
            println!("{}", json!({"name": name, "truncate": k, "len": enc.len(), "status": status, "detail": detail}));
            continue;
        }
        let caps: Vec<usize> = sc["caps"].as_array().unwrap().iter().map(|x| x.as_u64().unwrap() as usize).collect();
        let fail_at = sc["fail_at"].as_u64().unwrap() as usize;
        let mut w = ScriptWriter { buf: vec![], caps: caps.clone(), fail_at, calls: 0 };
        let r = guarded(|| (case.ser)(&s.ctx, &mut w));
        let exp = &sc["expect"];
        let (result, claimed) = match &r {
            Err(_) => ("panic", 0usize),
            Ok(Ok(n)) => ("ok", *n),
            Ok(Err(_)) => ("err", 0),
        };
        let mut problems: Vec<String> = vec![];
        if result == "panic" {
            problems.push("serialize panicked".into());
        }
        if result == "ok" && (w.buf != *enc || claimed != enc.len()) {
            problems.push(format!("serialize returned Ok({}) but {} of {} bytes reached the sink{}", claimed, w.buf.len(), enc.len(), if enc.starts_with(&w.buf) { "" } else { " (and they differ from the encoding)" }));
        }
        if result != "panic" && result != exp["result"].as_str().unwrap() {
            problems.push(format!("outcome {} but the specification's writer model yields {}", result, exp["result"]));
        }
        if w.buf.len() != exp["sink"].as_u64().unwrap() as usize && result != "panic" {
            problems.push(format!("{} bytes on the sink, model says {}", w.buf.len(), exp["sink"]));
        }
        if !enc.starts_with(&w.buf) {
            problems.push("sink content is not a prefix of the encoding".into());
        }
        println!(
            "{}",
            json!({"name": name, "caps": caps, "fail_at": fail_at, "status": if problems.is_empty() { "ok" } else { "violation" }, "detail": problems.join("; "),
                   "result": result, "sink": w.buf.len(), "calls": w.calls, "len": enc.len()})
        );
    }
}
