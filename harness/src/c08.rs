//! C08 driver: calls the word-level modular primitives and the multi-word helpers on enumerated, boundary and
//! random operands and records operands and results.  Values are u64 numbers or little-endian word arrays;
//! bin/check turns them into BigNat limb arrays and adds the quotient hints before TLC validates the trace.
use crate::project::guarded;
use heathcliff::util::*;
use heathcliff::Modulus;
use rand::{Rng, SeedableRng};
use serde_json::{json, Value};

fn out(v: Value) {
    println!("{}", v);
}

fn call<T: serde::Serialize>(f: impl FnOnce() -> T) -> Value {
    match guarded(f) {
        Ok(v) => json!(v),
        Err(e) => json!({ "panic": e }),
    }
}

/// exhaustive rows for one small modulus (native TLC integers)
pub fn small_rows(m: u64) {
    let md = Modulus::new(m);
    let mut rows: Vec<Value> = vec![];
    let flush = |rows: &mut Vec<Value>| {
        if !rows.is_empty() {
            out(json!({"ev": "small", "m": m, "rows": rows}));
            rows.clear();
        }
    };
    for a in 0..m {
        for b in 0..m {
            let c = (a * 7 + b * 13 + 5) % 16384;
            let e = (a + 3 * b) % 64;
            let r = guarded(|| {
                let op = MultiplyU64ModOperand::new(b, &md);
                let mut inv = 0u64;
                let invok = try_invert_u64_mod(a, &md, &mut inv);
                vec![
                    a,
                    b,
                    c,
                    add_u64_mod(a, b, &md),
                    sub_u64_mod(a, b, &md),
                    negate_u64_mod(a, &md),
                    multiply_u64_mod(a, b, &md),
                    multiply_u64operand_mod(a, &op, &md),
                    multiply_u64operand_mod_lazy(a, &op, &md),
                    multiply_add_u64_mod(a, b, c, &md),
                    increment_u64_mod(a, &md),
                    decrement_u64_mod(a, &md),
                    if m % 2 == 1 { div2_u64_mod(a, &md) } else { 0 },
                    e,
                    exponentiate_u64_mod(a, e, &md),
                    invok as u64,
                    if invok { inv } else { 0 },
                    gcd(a, b),
                    md.reduce(a * b + c),
                ]
            });
            match r {
                Ok(v) => rows.push(json!(v)),
                Err(e) => out(json!({"ev": "panic", "op": "small", "m": m, "a": a, "b": b, "detail": e})),
            }
            if rows.len() >= 256 {
                flush(&mut rows);
            }
        }
    }
    flush(&mut rows);
}

fn boundary(m: u64) -> Vec<u64> {
    let mut v = vec![0, 1, 2, m / 2, m / 2 + 1, m - 2, m - 1];
    v.retain(|x| *x < m);
    v.sort();
    v.dedup();
    v
}

/// word-level primitives for one (large) modulus
pub fn big_modulus(m: u64, rng: &mut impl Rng, nrand: usize) {
    let md = match guarded(|| Modulus::new(m)) {
        Ok(x) => x,
        Err(e) => {
            out(json!({"ev": "panic", "op": "modulus_new", "m": m, "detail": e}));
            return;
        }
    };
    let mut ops: Vec<u64> = boundary(m);
    for _ in 0..nrand {
        ops.push(rng.gen_range(0..m));
    }
    let mut facts: Vec<Value> = vec![];
    let pairs: Vec<(u64, u64)> = {
        let mut p = vec![];
        let b = boundary(m);
        for &x in &b {
            for &y in &b {
                p.push((x, y));
            }
        }
        for _ in 0..nrand {
            p.push((rng.gen_range(0..m), rng.gen_range(0..m)));
        }
        p
    };
    for &(a, b) in &pairs {
        facts.push(json!({"op": "add_mod", "x": [a, b, m, call(|| add_u64_mod(a, b, &md))]}));
        facts.push(json!({"op": "sub_mod", "x": [a, b, m, call(|| sub_u64_mod(a, b, &md))]}));
        facts.push(json!({"op": "mul_mod", "x": [a, b, m, call(|| multiply_u64_mod(a, b, &md))]}));
        let c: u64 = rng.gen();
        facts.push(json!({"op": "mac", "x": [a, b, c, m, call(|| multiply_add_u64_mod(a, b, c, &md))]}));
        // multiply by a precomputed operand: x may be any 64-bit word, y < m
        let x: u64 = if rng.gen_bool(0.5) { a } else { rng.gen() };
        let opnd = guarded(|| MultiplyU64ModOperand::new(b, &md));
        if let Ok(opnd) = opnd {
            facts.push(json!({"op": "mul_operand", "x": [x, b, m, opnd.quotient, call(|| multiply_u64operand_mod(x, &opnd, &md))]}));
            facts.push(json!({"op": "mul_operand_lazy", "x": [x, b, m, call(|| multiply_u64operand_mod_lazy(x, &opnd, &md))]}));
            facts.push(json!({"op": "mac_operand", "x": [x, b, c, m, call(|| multiply_u64operand_add_u64_mod(x, &opnd, c, &md))]}));
        } else {
            out(json!({"ev": "panic", "op": "mul_operand_new", "m": m, "b": b}));
        }
    }
    for &a in &ops {
        facts.push(json!({"op": "neg_mod", "x": [a, m, call(|| negate_u64_mod(a, &md))]}));
        if m % 2 == 1 {
            facts.push(json!({"op": "div2_mod", "x": [a, m, call(|| div2_u64_mod(a, &md))]}));
        }
        facts.push(json!({"op": "inc_mod", "x": [a, m, call(|| increment_u64_mod(a, &md))]}));
        facts.push(json!({"op": "dec_mod", "x": [a, m, call(|| decrement_u64_mod(a, &md))]}));
        let mut inv = 0u64;
        let ok = guarded(|| try_invert_u64_mod(a, &md, &mut inv));
        facts.push(json!({"op": "inv", "x": [a, m], "ok": ok.clone().unwrap_or(false), "r": inv, "panic": ok.is_err()}));
        let e: u64 = match rng.gen_range(0..4) {
            0 => rng.gen_range(0..4),
            1 => rng.gen_range(0..1000),
            2 => m - 1,
            _ => rng.gen(),
        };
        facts.push(json!({"op": "exp", "x": [a, m, call(|| exponentiate_u64_mod(a, e, &md))], "e": e}));
    }
    // reductions of 64-bit and 128-bit values
    let words: Vec<u64> = vec![0, 1, m - 1, m, m + 1, 2 * m - 1, 2 * m, 1 << 63, u64::MAX, u64::MAX - 1, rng.gen(), rng.gen(), rng.gen()];
    for &w in &words {
        facts.push(json!({"op": "red", "x": [w, m, call(|| barrett_reduce_u64(w, &md))]}));
        facts.push(json!({"op": "red", "x": [w, m, call(|| md.reduce(w))]}));
        for &h in &words {
            facts.push(json!({"op": "red", "x": [[w, h], m, call(|| barrett_reduce_u128(&[w, h], &md))]}));
            facts.push(json!({"op": "red", "x": [[w, h], m, call(|| md.reduce_u128(((h as u128) << 64) | w as u128))]}));
        }
    }
    // gcd
    for _ in 0..8 {
        let g: u64 = rng.gen_range(1..1 << 20);
        let (x, y) = (g * rng.gen_range(1..1u64 << 40), g * rng.gen_range(1..1u64 << 40));
        facts.push(json!({"op": "gcd", "x": [x, y, call(|| gcd(x, y))]}));
    }
    facts.push(json!({"op": "gcd", "x": [m, m - 1, call(|| gcd(m, m - 1))]}));
    // dot product (lengths 1..8) and multi-word reduction (1..8 words)
    for len in 1..=8usize {
        let a: Vec<u64> = (0..len).map(|i| if i % 3 == 0 { m - 1 } else { rng.gen_range(0..m) }).collect();
        let b: Vec<u64> = (0..len).map(|i| if i % 2 == 0 { m - 1 } else { rng.gen_range(0..m) }).collect();
        facts.push(json!({"op": "dot", "a": a, "b": b, "x": [m, call(|| dot_product_mod(&a, &b, &md))]}));
        let v: Vec<u64> = (0..len).map(|i| if i % 2 == 1 { u64::MAX } else { rng.gen() }).collect();
        facts.push(json!({"op": "red", "x": [v, m, call(|| modulo_uint(&v, &md))]}));
        facts.push(json!({"op": "red", "x": [v, m, call(|| {
            let mut w = v.clone();
            modulo_uint_inplace(&mut w, &md);
            w[0]
        })], "rest_zero": call(|| {
            let mut w = v.clone();
            modulo_uint_inplace(&mut w, &md);
            w[1..].iter().all(|x| *x == 0)
        })}));
    }
    for chunk in facts.chunks(64) {
        out(json!({"ev": "big", "m": m, "facts": chunk}));
    }
}

fn pattern(rng: &mut impl Rng, w: usize, kind: usize) -> Vec<u64> {
    (0..w)
        .map(|i| match kind {
            0 => u64::MAX,
            1 => 0,
            2 => {
                if i == w - 1 {
                    1 << 63
                } else {
                    0
                }
            }
            3 => 0x8000_0000_0000_0000 | (i as u64),
            4 => {
                if i == 0 {
                    1
                } else {
                    0
                }
            }
            5 => 0x5555_5555_5555_5555,
            _ => rng.gen(),
        })
        .collect()
}

/// multi-word helpers for word counts 1..8
pub fn multiword(rng: &mut impl Rng, reps: usize) {
    let mut facts: Vec<Value> = vec![];
    for w in 1..=8usize {
        for ka in 0..(6 + reps) {
            for kb in 0..(6 + reps) {
                let a = pattern(rng, w, ka);
                let b = pattern(rng, w, kb);
                // add / sub with carry and borrow
                let mut r = vec![0u64; w];
                let carry = guarded(|| add_uint(&a, &b, &mut r));
                facts.push(json!({"op": "add_uint", "x": [a, b, r], "n": [w, carry.clone().unwrap_or(9)], "panic": carry.is_err()}));
                let mut r = a.clone();
                let carry = guarded(|| add_uint_inplace(&mut r, &b));
                facts.push(json!({"op": "add_uint", "x": [a, b, r], "n": [w, carry.clone().unwrap_or(9)], "panic": carry.is_err()}));
                let mut r = vec![0u64; w];
                let borrow = guarded(|| sub_uint(&a, &b, &mut r));
                facts.push(json!({"op": "sub_uint", "x": [a, b, r], "n": [w, borrow.clone().unwrap_or(9)], "panic": borrow.is_err()}));
                let mut r = a.clone();
                let borrow = guarded(|| sub_uint_inplace(&mut r, &b));
                facts.push(json!({"op": "sub_uint", "x": [a, b, r], "n": [w, borrow.clone().unwrap_or(9)], "panic": borrow.is_err()}));
                // word operand variants
                let k = b[0];
                let mut r = vec![0u64; w];
                let carry = guarded(|| add_uint_u64(&a, k, &mut r));
                facts.push(json!({"op": "add_uint", "x": [a, k, r], "n": [w, carry.clone().unwrap_or(9)], "panic": carry.is_err()}));
                let mut r = vec![0u64; w];
                let borrow = guarded(|| sub_uint_u64(&a, k, &mut r));
                facts.push(json!({"op": "sub_uint", "x": [a, k, r], "n": [w, borrow.clone().unwrap_or(9)], "panic": borrow.is_err()}));
                // comparison
                let ord = guarded(|| compare_uint(&a, &b));
                facts.push(json!({"op": "cmp", "x": [a, b], "n": [ord.map(|o| o as i32 + 1).unwrap_or(9)]}));
                facts.push(json!({"op": "cmpflags", "x": [a, b], "flags": [call(|| is_greater_than_uint(&a, &b)), call(|| is_greater_than_or_equal_uint(&a, &b)),
                    call(|| is_less_than_uint(&a, &b)), call(|| is_less_than_or_equal_uint(&a, &b)), call(|| is_equal_uint(&a, &b))]}));
                // full and truncated products
                for rw in [w, 2 * w] {
                    let mut r = vec![0u64; rw];
                    let p = guarded(|| multiply_uint(&a, &b, &mut r));
                    facts.push(json!({"op": "mul_uint", "x": [a, b, r], "n": [rw], "panic": p.is_err()}));
                }
                let mut r = vec![0u64; w + 1];
                let p = guarded(|| multiply_uint_u64(&a, k, &mut r));
                facts.push(json!({"op": "mul_uint", "x": [a, k, r], "n": [w + 1], "panic": p.is_err()}));
                let mut r = a.clone();
                let p = guarded(|| multiply_uint_u64_inplace(&mut r, k));
                facts.push(json!({"op": "mul_uint", "x": [a, k, r], "n": [w], "panic": p.is_err(), "variant": "inplace"}));
                // division with remainder (denominator non-zero)
                if !b.iter().all(|x| *x == 0) {
                    let mut q = vec![0u64; w];
                    let mut rem = vec![0u64; w];
                    let p = guarded(|| divide_uint(&a, &b, &mut q, &mut rem));
                    facts.push(json!({"op": "div_uint", "x": [a, b, q, rem], "panic": p.is_err()}));
                    // short denominators
                    let mut d = vec![0u64; w];
                    d[0] = b[0] | 1;
                    let mut q = vec![0u64; w];
                    let mut rem = vec![0u64; w];
                    let p = guarded(|| divide_uint(&a, &d, &mut q, &mut rem));
                    facts.push(json!({"op": "div_uint", "x": [a, d, q, rem], "panic": p.is_err()}));
                }
                // modular multi-word add/sub/negate: reduce operands below a modulus first
                let mut md = pattern(rng, w, 6);
                md[w - 1] |= 1 << 62;
                let reduce = |v: &Vec<u64>| -> Vec<u64> {
                    let mut v = v.clone();
                    let mut q = vec![0u64; w];
                    divide_uint_inplace(&mut v, &md, &mut q);
                    v
                };
                if let (Ok(ar), Ok(br)) = (guarded(|| reduce(&a)), guarded(|| reduce(&b))) {
                    let mut r = vec![0u64; w];
                    let p = guarded(|| add_uint_mod(&ar, &br, &md, &mut r));
                    facts.push(json!({"op": "add_mod", "x": [ar, br, md, r], "panic": p.is_err()}));
                    let mut r = vec![0u64; w];
                    let p = guarded(|| sub_uint_mod(&ar, &br, &md, &mut r));
                    facts.push(json!({"op": "sub_mod", "x": [ar, br, md, r], "panic": p.is_err()}));
                    let mut r = vec![0u64; w];
                    let p = guarded(|| negate_uint_mod(&ar, &md, &mut r));
                    facts.push(json!({"op": "neg_mod", "x": [ar, md, r], "panic": p.is_err()}));
                }
            }
            let a = pattern(rng, w, ka);
            let mut r = vec![0u64; w];
            let p = guarded(|| negate_uint(&a, &mut r));
            facts.push(json!({"op": "neg_uint", "x": [a, r], "n": [w], "panic": p.is_err()}));
            let mut r = vec![0u64; w];
            let p = guarded(|| half_round_up_uint(&a, &mut r));
            facts.push(json!({"op": "half_up", "x": [a, r], "panic": p.is_err()}));
            let mut r = a.clone();
            let p = guarded(|| half_round_up_uint_inplace(&mut r));
            facts.push(json!({"op": "half_up", "x": [a, r], "panic": p.is_err()}));
            facts.push(json!({"op": "bits", "x": [a], "n": [call(|| get_significant_bit_count_uint(&a))]}));
            // shifts by every interesting amount
            for s in [0usize, 1, 31, 63, 64, 65, 127, 128, 129, 64 * w - 1] {
                if s >= 64 * w {
                    continue;
                }
                let mut r = vec![0u64; w];
                let p = guarded(|| left_shift_uint(&a, s, w, &mut r));
                facts.push(json!({"op": "shl", "x": [a, r], "n": [w, s], "panic": p.is_err()}));
                let mut r = a.clone();
                let p = guarded(|| left_shift_uint_inplace(&mut r, s, w));
                facts.push(json!({"op": "shl", "x": [a, r], "n": [w, s], "panic": p.is_err()}));
                let mut r = vec![0u64; w];
                let p = guarded(|| right_shift_uint(&a, s, w, &mut r));
                facts.push(json!({"op": "shr", "x": [a, r], "n": [w, s], "panic": p.is_err()}));
                let mut r = a.clone();
                let p = guarded(|| right_shift_uint_inplace(&mut r, s, w));
                facts.push(json!({"op": "shr", "x": [a, r], "n": [w, s], "panic": p.is_err()}));
                if w == 2 {
                    let mut r = vec![0u64; 2];
                    let p = guarded(|| left_shift_u128(&a, s, &mut r));
                    facts.push(json!({"op": "shl", "x": [a, r], "n": [w, s], "panic": p.is_err(), "variant": "u128"}));
                    let mut r = vec![0u64; 2];
                    let p = guarded(|| right_shift_u128(&a, s, &mut r));
                    facts.push(json!({"op": "shr", "x": [a, r], "n": [w, s], "panic": p.is_err(), "variant": "u128"}));
                    let mut r = a.clone();
                    let p = guarded(|| left_shift_u128_inplace(&mut r, s));
                    facts.push(json!({"op": "shl", "x": [a, r], "n": [w, s], "panic": p.is_err(), "variant": "u128_inplace"}));
                    let mut r = a.clone();
                    let p = guarded(|| right_shift_u128_inplace(&mut r, s));
                    facts.push(json!({"op": "shr", "x": [a, r], "n": [w, s], "panic": p.is_err(), "variant": "u128_inplace"}));
                }
                if w == 3 {
                    let mut r = vec![0u64; 3];
                    let p = guarded(|| left_shift_u192(&a, s, &mut r));
                    facts.push(json!({"op": "shl", "x": [a, r], "n": [w, s], "panic": p.is_err(), "variant": "u192"}));
                    let mut r = vec![0u64; 3];
                    let p = guarded(|| right_shift_u192(&a, s, &mut r));
                    facts.push(json!({"op": "shr", "x": [a, r], "n": [w, s], "panic": p.is_err(), "variant": "u192"}));
                    let mut r = a.clone();
                    let p = guarded(|| left_shift_u192_inplace(&mut r, s));
                    facts.push(json!({"op": "shl", "x": [a, r], "n": [w, s], "panic": p.is_err(), "variant": "u192_inplace"}));
                    let mut r = a.clone();
                    let p = guarded(|| right_shift_u192_inplace(&mut r, s));
                    facts.push(json!({"op": "shr", "x": [a, r], "n": [w, s], "panic": p.is_err(), "variant": "u192_inplace"}));
                }
            }
        }
        // products of many words
        let ops: Vec<u64> = (0..w).map(|i| if i % 2 == 0 { u64::MAX - i as u64 } else { rng.gen() }).collect();
        let mut r = vec![0u64; w];
        let p = guarded(|| multiply_many_u64(&ops, &mut r));
        facts.push(json!({"op": "mul_many", "a": ops, "x": [r], "panic": p.is_err()}));
    }
    // 128/64 and 192/64 division, 64x64 products
    for _ in 0..(20 + reps * 10) {
        let d: u64 = match rng.gen_range(0..3) {
            0 => rng.gen_range(1..1 << 20),
            1 => rng.gen::<u64>() | 1,
            _ => (1u64 << 60) + rng.gen_range(0..1u64 << 59),
        };
        let num = [rng.gen::<u64>(), rng.gen::<u64>()];
        let mut n2 = num;
        let mut q = [0u64; 2];
        let p = guarded(|| divide_u128_u64_inplace(&mut n2, d, &mut q));
        facts.push(json!({"op": "div_uint", "x": [num, d, q, n2], "panic": p.is_err(), "variant": "u128_u64"}));
        let num = [rng.gen::<u64>(), rng.gen::<u64>(), rng.gen::<u64>()];
        let mut n3 = num;
        let mut q = [0u64; 3];
        let p = guarded(|| divide_u192_u64_inplace(&mut n3, d, &mut q));
        facts.push(json!({"op": "div_uint", "x": [num, d, q, n3], "panic": p.is_err(), "variant": "u192_u64"}));
        let (a, b): (u64, u64) = (rng.gen(), rng.gen());
        let mut r = [0u64; 2];
        multiply_u64_u64(a, b, &mut r);
        facts.push(json!({"op": "mul_uint", "x": [a, b, r], "n": [2]}));
        let mut hw = 0u64;
        multiply_u64_high_word(a, b, &mut hw);
        facts.push(json!({"op": "mul_uint", "x": [a, b, [r[0], hw]], "n": [2], "variant": "high_word"}));
    }
    // number theory helpers: extended gcd (signed Bezout coefficients), coprimality, non-adjacent form
    let pairs: Vec<(u64, u64)> = {
        let mut v: Vec<(u64, u64)> = vec![(1, 1), (1, 0), (0, 1), (12, 18), (17, 5), (5, 17), (1 << 40, 1 << 20), ((1 << 61) - 1, (1 << 31) - 1), (u32::MAX as u64, 65537)];
        for a in 1..=(if reps == 0 { 12u64 } else { 40 }) {
            for b in 1..=(if reps == 0 { 12u64 } else { 40 }) {
                v.push((a, b));
            }
        }
        for _ in 0..(8 + 20 * reps) {
            let g: u64 = rng.gen_range(1..1 << 12);
            v.push((g * rng.gen_range(1..1u64 << 30), g * rng.gen_range(1..1u64 << 30)));
            v.push((rng.gen_range(1..1u64 << 62), rng.gen_range(1..1u64 << 62)));
        }
        v
    };
    for (a, b) in pairs {
        match guarded(|| xgcd(a, b)) {
            Ok((g, x, y)) => facts.push(json!({"op": "xgcd", "x": [a, b, g, x.unsigned_abs(), y.unsigned_abs()], "n": [(x < 0) as u8, (y < 0) as u8]})),
            Err(_) => facts.push(json!({"op": "xgcd", "x": [a, b], "panic": true})),
        }
        if a > 0 && b > 0 {
            facts.push(json!({"op": "coprime", "x": [a, b, call(|| gcd(a, b))], "n": [call(|| are_coprime(a, b) as u8)]}));
        }
    }
    let mut nafs: Vec<i32> = (-(if reps == 0 { 300 } else { 5000 })..=(if reps == 0 { 300 } else { 5000 })).collect();
    nafs.extend([16383, -16383, 16384, 32767, -32768, 65535, 1 << 20, (1 << 24) - 1, -(1 << 24) + 5, 0x2AAAAAA, 0x5555555, (1 << 28) + 1, -(1 << 28) - 3]);
    for _ in 0..(20 + 100 * reps) {
        nafs.push(rng.gen_range(-(1i32 << 29)..(1i32 << 29)));
    }
    for v in nafs {
        match guarded(|| naf(v)) {
            Ok(t) => facts.push(json!({"op": "naf", "v": v, "terms": t})),
            Err(_) => facts.push(json!({"op": "naf", "v": v, "panic": true})),
        }
    }
    for chunk in facts.chunks(32) {
        out(json!({"ev": "big", "m": 0, "facts": chunk}));
    }
}

pub fn main(args: &[String]) {
    crate::project::silence_panics();
    let tier = args[0].as_str();
    let seed: u64 = args[1].parse().unwrap();
    let mut rng = rand::rngs::StdRng::seed_from_u64(seed);
    let small: Vec<u64> = if tier == "quick" { vec![2, 3, 4, 5, 7, 8, 16, 17, 31, 64, 97, 127] } else { (2..128).collect() };
    for m in small {
        small_rows(m);
    }
    // moduli at every bit length 2..61: smallest, largest, one random (composite or prime), plus NTT primes the library generates
    let nrand = if tier == "quick" { 3 } else { 40 };
    let quick_bits = [2u32, 3, 4, 8, 16, 17, 31, 32, 33, 48, 59, 60, 61];
    for bits in 2..=61u32 {
        if tier == "quick" && !quick_bits.contains(&bits) {
            continue;
        }
        let lo = 1u64 << (bits - 1);
        let hi = (1u64 << bits) - 1;
        let mut ms = if tier == "quick" { vec![lo.max(2), hi] } else { vec![lo.max(2), hi, rng.gen_range(lo.max(2)..=hi)] };
        if bits >= 20 {
            if let Ok(p) = guarded(|| heathcliff::CoeffModulus::create(8, vec![bits as usize])) {
                ms.push(p[0].value());
            }
        }
        ms.sort();
        ms.dedup();
        for m in ms {
            big_modulus(m, &mut rng, nrand);
        }
    }
    multiword(&mut rng, if tier == "quick" { 0 } else { 4 });
}
