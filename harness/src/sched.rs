//! Deterministic scheduler behind the feature-guarded hooks of the library (C17).
//! Worker threads park at every yield point; the controller releases exactly the thread a schedule names.
use std::cell::Cell;
use std::collections::HashMap;
use std::sync::{Arc, Condvar, Mutex};
use std::time::Duration;

#[derive(Clone, Debug, PartialEq)]
pub enum TState {
    Running,
    Parked(&'static str),
    Done,
}

#[derive(Default)]
pub struct Inner {
    pub state: HashMap<usize, TState>,
    pub grant: Option<usize>,
    pub events: Vec<(usize, &'static str, Vec<u64>)>,
    pub forced: bool,
}

pub struct Sched {
    pub inner: Mutex<Inner>,
    pub cv: Condvar,
}

thread_local! {
    pub static TID: Cell<usize> = Cell::new(0);
}

impl Sched {
    pub fn install(forced: bool) -> Arc<Sched> {
        let s = Arc::new(Sched { inner: Mutex::new(Inner { forced, ..Default::default() }), cv: Condvar::new() });
        let s1 = s.clone();
        let s2 = s.clone();
        let y: Arc<heathcliff::verif::YieldFn> = Arc::new(move |site| s1.on_yield(site));
        let e: Arc<heathcliff::verif::EventFn> = Arc::new(move |site, fields| s2.on_event(site, fields));
        heathcliff::verif::set_hooks(if forced { Some(y) } else { None }, Some(e));
        s
    }
    pub fn uninstall() {
        heathcliff::verif::set_hooks(None, None);
    }
    fn on_yield(&self, site: &'static str) {
        let tid = TID.with(|t| t.get());
        if tid == 0 {
            return;
        }
        let mut g = self.inner.lock().unwrap();
        if !g.forced {
            return;
        }
        g.state.insert(tid, TState::Parked(site));
        self.cv.notify_all();
        while g.grant != Some(tid) {
            g = self.cv.wait(g).unwrap();
        }
        g.grant = None;
        g.state.insert(tid, TState::Running);
    }
    fn on_event(&self, site: &'static str, fields: &[u64]) {
        let tid = TID.with(|t| t.get());
        let mut g = self.inner.lock().unwrap();
        g.events.push((tid, site, fields.to_vec()));
    }
    pub fn register(&self, tid: usize) {
        TID.with(|t| t.set(tid));
        self.inner.lock().unwrap().state.insert(tid, TState::Running);
    }
    pub fn finish(&self, tid: usize) {
        let mut g = self.inner.lock().unwrap();
        g.state.insert(tid, TState::Done);
        self.cv.notify_all();
    }
    /// wait until no registered thread (of `n`) is running; false on timeout
    pub fn wait_quiescent(&self, n: usize, timeout: Duration) -> bool {
        let mut g = self.inner.lock().unwrap();
        let deadline = std::time::Instant::now() + timeout;
        loop {
            if g.state.len() == n && g.state.values().all(|s| *s != TState::Running) && g.grant.is_none() {
                return true;
            }
            let now = std::time::Instant::now();
            if now >= deadline {
                return false;
            }
            let (ng, _) = self.cv.wait_timeout(g, deadline - now).unwrap();
            g = ng;
        }
    }
    pub fn state_of(&self, tid: usize) -> TState {
        self.inner.lock().unwrap().state.get(&tid).cloned().unwrap_or(TState::Running)
    }
    pub fn release(&self, tid: usize) {
        let mut g = self.inner.lock().unwrap();
        g.grant = Some(tid);
        g.state.insert(tid, TState::Running);
        self.cv.notify_all();
    }
    /// stop forcing: every parked thread runs to completion
    pub fn free_all(&self) {
        let mut g = self.inner.lock().unwrap();
        g.forced = false;
        let parked: Vec<usize> = g.state.iter().filter(|(_, s)| matches!(s, TState::Parked(_))).map(|(t, _)| *t).collect();
        drop(g);
        for t in parked {
            // release one at a time; after forced=false later yields do not park
            loop {
                let st = self.state_of(t);
                if !matches!(st, TState::Parked(_)) {
                    break;
                }
                self.release(t);
                std::thread::sleep(Duration::from_millis(1));
            }
        }
    }
    pub fn take_events(&self) -> Vec<(usize, &'static str, Vec<u64>)> {
        std::mem::take(&mut self.inner.lock().unwrap().events)
    }
}
