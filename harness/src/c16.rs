//! C16: seeded generator stream replay, freshness histories, sample well-formedness.
use crate::project::*;
use crate::psets::*;
use heathcliff::util::rlwe::sample;
use heathcliff::util::{BlakeRNG, PRNGSeed};
use heathcliff::*;
use rand::{RngCore, SeedableRng};
use serde_json::{json, Value};

fn seed_no(k: usize) -> [u8; 64] {
    let mut s = [0u8; 64];
    match k {
        0 => {}
        1 => s = [0xFF; 64],
        2 => s = [1; 64],
        3 => s[0] = 1,
        4 => s[63] = 0x80,
        _ => {
            let mut h = blake3::Hasher::new();
            h.update(&(k as u64).to_le_bytes());
            h.finalize_xof().fill(&mut s);
        }
    }
    s
}

/// the documented stream, computed independently of the generator: block c = first 4096 bytes of BLAKE3-XOF(seed || le64(c))
pub fn reference(seed: &[u8; 64], len: usize) -> Vec<u8> {
    let mut out = Vec::with_capacity(len + 4096);
    let mut c = 0u64;
    while out.len() < len {
        let mut h = blake3::Hasher::new();
        h.update(seed);
        h.update(&c.to_le_bytes());
        let mut block = [0u8; 4096];
        h.finalize_xof().fill(&mut block);
        out.extend_from_slice(&block);
        c += 1;
    }
    out
}

fn digest(bytes: &[u8]) -> String {
    blake3::hash(bytes).to_hex()[..24].to_string()
}
fn digest_u64(words: &[u64]) -> String {
    let mut b = Vec::with_capacity(words.len() * 8);
    for w in words {
        b.extend_from_slice(&w.to_le_bytes());
    }
    digest(&b)
}

pub fn replay_stream(path: &str) {
    use std::io::BufRead;
    let f = std::io::BufReader::new(std::fs::File::open(path).unwrap());
    let refs: Vec<Vec<u8>> = (0..8).map(|k| reference(&seed_no(k), 20000)).collect();
    for line in f.lines() {
        let b: Value = serde_json::from_str(&line.unwrap()).unwrap();
        let k = b["seed"].as_u64().unwrap() as usize;
        let rf = &refs[k];
        let mut rng = BlakeRNG::from_seed(PRNGSeed(seed_no(k)));
        let mut status = "ok";
        let mut detail = String::new();
        for (i, st) in b["steps"].as_array().unwrap().iter().enumerate() {
            let (from, to) = (st["from"].as_u64().unwrap() as usize, st["to"].as_u64().unwrap() as usize);
            let got: Result<Vec<u8>, String> = guarded(|| match st["op"].as_str().unwrap() {
                "fill" => {
                    let mut v = vec![0u8; st["n"].as_u64().unwrap() as usize];
                    rng.fill_bytes(&mut v);
                    v
                }
                "u32" => rng.next_u32().to_le_bytes().to_vec(),
                _ => rng.next_u64().to_le_bytes().to_vec(),
            });
            match got {
                Err(e) => {
                    status = "violation";
                    detail = format!("step {} panicked: {}", i, e);
                    break;
                }
                Ok(v) => {
                    if v != rf[from..to] {
                        status = "violation";
                        detail = format!("step {} ({} {}) did not return stream bytes [{}, {})", i, st["op"], st["n"], from, to);
                        break;
                    }
                }
            }
        }
        println!("{}", json!({"id": b["id"], "status": status, "detail": detail}));
    }
}

fn c1_digest(c: &Ciphertext) -> String {
    digest_u64(c.poly(1))
}

pub fn events(pset_name: &str, seed: u64, quick: bool) {
    let ps = pset(pset_name);
    let s = Suite::new(&ps);
    let mk_plain = |k: u64| -> Plaintext {
        if ps.scheme == SchemeType::CKKS {
            s.ckks.as_ref().unwrap().encode_f64_single_new(k as f64, None, 2f64.powi(20))
        } else {
            s.batch.as_ref().unwrap().encode_polynomial_new(&[k % ps.t, 1])
        }
    };
    // ---- history of operations on one context: every mask / stored seed is new
    let nops = if quick { 60 } else { 400 };
    let mut evs: Vec<Value> = vec![];
    for i in 0..nops {
        match i % 6 {
            0 => {
                let c = s.encryptor.encrypt_new(&mk_plain(i));
                evs.push(json!({"k": "draw", "digest": c1_digest(&c), "what": "pk encryption c1"}));
                evs.push(json!({"k": "draw", "digest": digest_u64(c.poly(0)), "what": "pk encryption c0"}));
            }
            1 => {
                let c = s.encryptor.encrypt_symmetric_new(&mk_plain(i));
                if is_seeded(&c) {
                    evs.push(json!({"k": "draw", "digest": digest_u64(&c.poly(1)[1..9]), "what": "stored seed"}));
                }
                let e = c.clone().expand_seed_checked(&s.ctx);
                evs.push(json!({"k": "draw", "digest": c1_digest(&e), "what": "expanded mask"}));
            }
            2 => {
                let mut c = Ciphertext::new();
                s.encryptor.encrypt_symmetric(&mk_plain(i), &mut c);
                evs.push(json!({"k": "draw", "digest": c1_digest(&c), "what": "sk encryption mask"}));
            }
            3 => {
                let pk = s.keygen.create_public_key(false);
                evs.push(json!({"k": "draw", "digest": c1_digest(pk.as_ciphertext()), "what": "public key mask"}));
            }
            4 => {
                let rk = s.keygen.create_relin_keys(false);
                for k in &rk.as_kswitch_keys().keys()[0] {
                    evs.push(json!({"k": "draw", "digest": c1_digest(k.as_ciphertext()), "what": "relin key mask"}));
                }
            }
            _ => {
                let z = s.encryptor.encrypt_zero_new();
                evs.push(json!({"k": "draw", "digest": c1_digest(&z), "what": "zero encryption c1"}));
            }
        }
    }
    // ---- operations handed the same explicit generator state derive the same mask
    for k in 0..4usize {
        let sd = seed_no(k + seed as usize % 3);
        let state = format!("seed{}@0", k);
        let mut g1 = BlakeRNG::from_seed(PRNGSeed(sd));
        let mut g2 = BlakeRNG::from_seed(PRNGSeed(sd));
        let mut g3 = BlakeRNG::from_seed(PRNGSeed(sd));
        let mut g4 = BlakeRNG::from_seed(PRNGSeed(sd));
        let a = s.encryptor.encrypt_zero_symmetric_new_with_u_prng(&mut g1).expand_seed_checked(&s.ctx);
        let mut b = Ciphertext::new();
        s.encryptor.encrypt_zero_symmetric_with_u_prng(&mut g2, &mut b);
        // In the coefficient representation (BFV) the unseeded variant stores the inverse transform of the sampled mask, the seeded
        // one the sample itself: they are different (equally distributed) masks by design, so only like is compared with like there.
        if ps.scheme == SchemeType::BFV {
            let mut g5 = BlakeRNG::from_seed(PRNGSeed(sd));
            let mut g6 = BlakeRNG::from_seed(PRNGSeed(sd));
            let a2 = s.encryptor.encrypt_zero_symmetric_new_with_u_prng(&mut g5).expand_seed_checked(&s.ctx);
            let mut b2 = Ciphertext::new();
            s.encryptor.encrypt_zero_symmetric_with_u_prng(&mut g6, &mut b2);
            evs.push(json!({"k": "explicit", "state": state.clone() + "/sym-seeded", "digest": c1_digest(&a)}));
            evs.push(json!({"k": "explicit", "state": state.clone() + "/sym-seeded", "digest": c1_digest(&a2)}));
            evs.push(json!({"k": "explicit", "state": state.clone() + "/sym-plain", "digest": c1_digest(&b)}));
            evs.push(json!({"k": "explicit", "state": state.clone() + "/sym-plain", "digest": c1_digest(&b2)}));
        } else {
            evs.push(json!({"k": "explicit", "state": state.clone() + "/sym", "digest": c1_digest(&a)}));
            evs.push(json!({"k": "explicit", "state": state.clone() + "/sym", "digest": c1_digest(&b)}));
        }
        // the generator is left in the same state by both variants
        evs.push(json!({"k": "explicit", "state": state.clone() + "/sym-after", "digest": g1.next_u64().to_string()}));
        evs.push(json!({"k": "explicit", "state": state.clone() + "/sym-after", "digest": g2.next_u64().to_string()}));
        let p1 = s.keygen.create_public_key_with_u_prng(true, &mut g3);
        let p2 = s.keygen.create_public_key_with_u_prng(false, &mut g4);
        let p1e = p1.as_ciphertext().clone().expand_seed_checked(&s.ctx);
        evs.push(json!({"k": "explicit", "state": state.clone() + "/pk", "digest": c1_digest(&p1e)}));
        evs.push(json!({"k": "explicit", "state": state.clone() + "/pk", "digest": c1_digest(p2.as_ciphertext())}));
        // asymmetric encryption with an explicit u generator: same u => c1 differs only by fresh noise, so compare nothing there
    }
    println!("{}", json!({"ev": "history", "pset": pset_name, "events": evs}));
    // ---- no repetition within the stream, different seeds differ (digests of 32-byte windows)
    let span = if quick { 64 * 1024 } else { 1024 * 1024 };
    let mut wins: Vec<Value> = vec![];
    for k in 0..6usize {
        let mut g = BlakeRNG::from_seed(PRNGSeed(seed_no(k)));
        let mut buf = vec![0u8; if k == 0 { span } else { 4096 }];
        g.fill_bytes(&mut buf);
        for w in buf.chunks(32) {
            wins.push(json!({"k": "draw", "digest": digest(w)}));
        }
    }
    for chunk in wins.chunks(2048) {
        println!("{}", json!({"ev": "history", "pset": "stream-windows", "events": chunk}));
    }
    // all windows of the long stream in one go are too many for one recursion; cross-chunk repetition is checked on digests of 4 KiB blocks
    {
        let mut g = BlakeRNG::from_seed(PRNGSeed(seed_no(0)));
        let mut buf = vec![0u8; span];
        g.fill_bytes(&mut buf);
        let blocks: Vec<Value> = buf.chunks(4096).map(|w| json!({"k": "draw", "digest": digest(w)})).collect();
        println!("{}", json!({"ev": "history", "pset": "stream-blocks", "events": blocks}));
    }
}

trait ExpandChecked {
    fn expand_seed_checked(self, ctx: &HeContext) -> Self;
}
impl ExpandChecked for Ciphertext {
    fn expand_seed_checked(self, ctx: &HeContext) -> Self {
        if is_seeded(&self) {
            self.expand_seed(ctx)
        } else {
            self
        }
    }
}

pub fn samples(seed: u64, quick: bool) {
    let mut rng = BlakeRNG::from_seed(PRNGSeed(seed_no(5 + seed as usize)));
    for (n, bits) in [(8usize, vec![20usize]), (8, vec![20, 25, 30]), (16, vec![30, 18, 22, 28, 24, 20]), (64, vec![25, 26])] {
        let moduli = CoeffModulus::create(n, bits.clone());
        let parms = EncryptionParameters::new(SchemeType::CKKS).set_poly_modulus_degree(n).set_coeff_modulus(&moduli);
        let k = moduli.len();
        let mvals: Vec<u64> = moduli.iter().map(|m| m.value()).collect();
        let reps = if quick { 20 } else { 200 };
        for _ in 0..reps {
            for kind in ["ternary", "error", "uniform"] {
                let mut d = vec![0u64; n * k];
                match kind {
                    "ternary" => sample::ternary(&mut rng, &parms, &mut d),
                    "error" => sample::centered_binomial(&mut rng, &parms, &mut d),
                    _ => sample::uniform(&mut rng, &parms, &mut d),
                }
                let poly: Vec<Vec<u64>> = (0..k).map(|j| d[j * n..(j + 1) * n].to_vec()).collect();
                println!("{}", json!({"ev": "sample", "k": kind, "moduli": mvals, "poly": poly}));
            }
        }
    }
    // frequencies (sanity): ternary counts and the first two moments of the error distribution
    let n = 1024usize;
    let moduli = CoeffModulus::create(n, vec![30]);
    let parms = EncryptionParameters::new(SchemeType::CKKS).set_poly_modulus_degree(n).set_coeff_modulus(&moduli);
    let q = moduli[0].value() as i64;
    let reps = if quick { 30 } else { 300 };
    let total = (n * reps) as i64;
    let mut tern = [0i64; 3];
    let (mut s1, mut s2) = (0i64, 0i64);
    for _ in 0..reps {
        let mut d = vec![0u64; n];
        sample::ternary(&mut rng, &parms, &mut d);
        for v in &d {
            let c = if (*v as i64) > q / 2 { *v as i64 - q } else { *v as i64 };
            tern[(c + 1) as usize] += 1;
        }
        sample::centered_binomial(&mut rng, &parms, &mut d);
        for v in &d {
            let c = if (*v as i64) > q / 2 { *v as i64 - q } else { *v as i64 };
            s1 += c;
            s2 += c * c;
        }
    }
    let tol3 = (18.0 * ((2.0 * total as f64) / 9.0).sqrt()) as i64 + 1;
    println!("{}", json!({"ev": "freq", "what": "ternary counts", "counts": tern, "den": 3, "nums": [1, 1, 1], "total": total, "tol": tol3}));
    let tol1 = (7.0 * (total as f64 * 10.5).sqrt()) as i64 + 1;
    println!("{}", json!({"ev": "freq", "what": "error mean", "counts": [s1], "den": 1, "nums": [0], "total": total, "tol": tol1}));
    let tol2 = (2.0 * 7.0 * (total as f64 * 215.0).sqrt()) as i64 + 1;
    println!("{}", json!({"ev": "freq", "what": "error variance 42/4", "counts": [s2], "den": 2, "nums": [21], "total": total, "tol": tol2}));
}

pub fn main(args: &[String]) {
    silence_panics();
    match args[0].as_str() {
        "stream" => replay_stream(&args[1]),
        "events" => events(&args[1], args[2].parse().unwrap(), args[3] == "quick"),
        "samples" => samples(args[1].parse().unwrap(), args[2] == "quick"),
        _ => panic!("c16 stream|events|samples"),
    }
}
