//! C17: forced-schedule replay of KeyCache.tla / GaloisCache.tla behaviours and free-running event recording.
use crate::project::*;
use crate::psets::*;
use crate::sched::*;
use heathcliff::*;
use serde_json::{json, Value};
use std::sync::Arc;
use std::time::Duration;

const WATCHDOG: Duration = Duration::from_secs(10);
static BLOCKED: std::sync::atomic::AtomicBool = std::sync::atomic::AtomicBool::new(false);

/// a ciphertext of the given size encrypting a fixed message (sizes > 2 by repeated multiplication)
fn ct_of_size(s: &Suite, size: usize, k: u64) -> Ciphertext {
    let vals: Vec<u64> = (0..s.ps.n).map(|i| (i as u64 + k) % s.ps.t).collect();
    let p = s.batch.as_ref().unwrap().encode_polynomial_new(&vals);
    let mut c = s.encryptor.encrypt_new(&p);
    let one = s.encryptor.encrypt_new(&s.batch.as_ref().unwrap().encode_polynomial_new(&[1]));
    while c.size() < size {
        c = s.evaluator.multiply_new(&c, &one);
    }
    c
}

enum Work<'a> {
    Decrypt(&'a Decryptor, Ciphertext),
    Relin(&'a KeyGenerator),
    Rotate(&'a Evaluator, Ciphertext, usize, &'a GaloisKeys),
    GaloisKeys(&'a KeyGenerator, Vec<usize>),
}

enum Out {
    Plain(Vec<u64>),
    Relin(RelinKeys),
    Ct(Ciphertext),
    Gk(GaloisKeys),
}

fn run_work(w: &Work) -> Result<Out, String> {
    guarded(|| match w {
        Work::Decrypt(d, c) => Out::Plain(d.decrypt_new(c).data().clone()),
        Work::Relin(kg) => Out::Relin(kg.create_relin_keys(false)),
        Work::Rotate(ev, c, g, gk) => Out::Ct(ev.apply_galois_new(c, *g, gk)),
        Work::GaloisKeys(kg, elts) => Out::Gk(kg.create_galois_keys_from_elts(elts, false)),
    })
}

/// Runs the works on threads 1..n under a forced schedule. Returns (per-step observations, outputs, problem)
fn forced(works: &[Work], schedule: &[usize]) -> (Vec<Value>, Vec<Option<Result<Out, String>>>, Option<String>) {
    let sched = Sched::install(true);
    let n = works.len();
    let mut outs: Vec<Option<Result<Out, String>>> = (0..n).map(|_| None).collect();
    let mut steps: Vec<Value> = vec![];
    let mut problem: Option<String> = None;
    std::thread::scope(|scope| {
        let handles: Vec<_> = works
            .iter()
            .enumerate()
            .map(|(i, w)| {
                let sc = sched.clone();
                scope.spawn(move || {
                    sc.register(i + 1);
                    let r = run_work(w);
                    sc.finish(i + 1);
                    r
                })
            })
            .collect();
        if !sched.wait_quiescent(n, WATCHDOG) {
            problem = Some("threads did not reach their first yield point".into());
        }
        if problem.is_none() {
            for (k, &t) in schedule.iter().enumerate() {
                let at = match sched.state_of(t) {
                    TState::Parked(site) => site,
                    st => {
                        problem = Some(format!("step {}: the model lets thread {} move but it is {:?}", k, t, st));
                        break;
                    }
                };
                sched.take_events();
                sched.release(t);
                if !sched.wait_quiescent(n, WATCHDOG) {
                    problem = Some(format!("step {}: thread {} released at {} did not reach its next yield point within {:?} (blocked: deadlock or unfaithful model)", k, t, at, WATCHDOG));
                    break;
                }
                let evs: Vec<Value> = sched.take_events().iter().map(|(tid, site, f)| json!({"t": tid, "site": site, "f": f})).collect();
                let now = match sched.state_of(t) {
                    TState::Parked(s) => s.to_string(),
                    TState::Done => "done".to_string(),
                    TState::Running => "running".to_string(),
                };
                steps.push(json!({"t": t, "at": at, "now": now, "events": evs}));
            }
        }
        if problem.is_none() {
            for t in 1..=n {
                if sched.state_of(t) != TState::Done {
                    problem = Some(format!("after the schedule thread {} is {:?}, the model says done", t, sched.state_of(t)));
                    break;
                }
            }
        }
        if matches!(&problem, Some(p) if p.contains("blocked")) {
            // the stuck threads cannot be joined; report and let the caller leave the process
            BLOCKED.store(true, std::sync::atomic::Ordering::SeqCst);
            let res = json!({"status": "violation", "kind": "blocked", "detail": problem.clone().unwrap(), "observed": steps});
            println!("{}", res);
            use std::io::Write;
            std::io::stdout().flush().unwrap();
            std::process::exit(17);
        }
        sched.free_all();
        for (i, h) in handles.into_iter().enumerate() {
            outs[i] = Some(h.join().unwrap_or_else(|_| Err("thread panicked outside the guarded call".into())));
        }
    });
    Sched::uninstall();
    (steps, outs, problem)
}

fn site_suffix(site: &str) -> &str {
    site.rsplit('.').next().unwrap_or(site)
}

/// replay of KeyCache.tla behaviours: {"kind": "dec"|"kg", "need": [..], "steps": [{t, at, len}]}
pub fn replay_keycache(s: &Suite, beh: &Value) -> Value {
    let kind = beh["kind"].as_str().unwrap();
    let need: Vec<usize> = beh["need"].as_array().unwrap().iter().map(|x| x.as_u64().unwrap() as usize).collect();
    let steps = beh["steps"].as_array().unwrap();
    let schedule: Vec<usize> = steps.iter().map(|x| x["t"].as_u64().unwrap() as usize).collect();
    // fresh shared object per behaviour: its cache starts with one power
    let decryptor = Decryptor::new(s.ctx.clone(), s.sk.clone());
    let keygen = KeyGenerator::from_sk(s.ctx.clone(), s.sk.clone());
    let cts: Vec<Ciphertext> = need.iter().enumerate().map(|(i, nd)| ct_of_size(s, nd + 1, i as u64)).collect();
    let works: Vec<Work> = if kind == "dec" { cts.iter().map(|c| Work::Decrypt(&decryptor, c.clone())).collect() } else { need.iter().map(|_| Work::Relin(&keygen)).collect() };
    let (obs, outs, problem) = forced(&works, &schedule);
    if let Some(p) = problem {
        return json!({"id": beh["id"], "status": "violation", "kind": "schedule", "detail": p, "observed": obs});
    }
    // compare every step with the model: yield site and cache length reported under the lock
    for (k, (o, e)) in obs.iter().zip(steps.iter()).enumerate() {
        if site_suffix(o["at"].as_str().unwrap()) != e["at"].as_str().unwrap() {
            return json!({"id": beh["id"], "status": "violation", "kind": "phase", "detail": format!("step {}: thread {} was at {} but the model has it at {}", k, o["t"], o["at"], e["at"]), "observed": obs});
        }
        for ev in o["events"].as_array().unwrap() {
            let f = ev["f"].as_array().unwrap();
            let site = site_suffix(ev["site"].as_str().unwrap());
            let reported = match site {
                "read" | "write_skip" | "use" => f[0].as_u64().unwrap(),
                "write" => f[2].as_u64().unwrap(),
                _ => continue,
            };
            if reported != e["len"].as_u64().unwrap() {
                return json!({"id": beh["id"], "status": "violation", "kind": "cache_length",
                    "detail": format!("step {}: the cache holds {} powers after {} of thread {}, the model says {}", k, reported, ev["site"], o["t"], e["len"]), "observed": obs});
            }
            if site == "use" && f[0].as_u64().unwrap() < f[1].as_u64().unwrap() {
                return json!({"id": beh["id"], "status": "violation", "kind": "short_cache", "detail": format!("step {}: use phase sees {} powers but needs {}", k, f[0], f[1]), "observed": obs});
            }
        }
    }
    // results equal the sequential ones
    for (i, out) in outs.iter().enumerate() {
        match out {
            Some(Ok(Out::Plain(p))) => {
                let seq = Decryptor::new(s.ctx.clone(), s.sk.clone()).decrypt_new(&cts[i]).data().clone();
                if *p != seq {
                    return json!({"id": beh["id"], "status": "violation", "kind": "result", "detail": format!("thread {} decrypted to {:?}, sequentially {:?}", i + 1, p, seq)});
                }
            }
            Some(Ok(Out::Relin(rk))) => {
                let ok = guarded(|| {
                    let c = ct_of_size(s, 3, 5);
                    let want = s.decryptor.decrypt_new(&c).data().clone();
                    rk.is_valid_for(&s.ctx) && s.decryptor.decrypt_new(&s.evaluator.relinearize_new(&c, rk)).data().clone() == want
                });
                if ok != Ok(true) {
                    return json!({"id": beh["id"], "status": "violation", "kind": "result", "detail": format!("relinearization keys generated by thread {} are invalid or do not relinearize correctly", i + 1)});
                }
            }
            Some(Err(e)) => return json!({"id": beh["id"], "status": "violation", "kind": "panic", "detail": format!("thread {} panicked: {}", i + 1, e)}),
            _ => return json!({"id": beh["id"], "status": "tool_error", "detail": "missing output"}),
        }
    }
    json!({"id": beh["id"], "status": "ok", "steps": obs.len()})
}

/// replay of GaloisCache.tla behaviours: {"elts": [[g,..] per thread], "steps": [{t, at, e, full}]}
/// each thread applies its Galois elements, one apply_ntt call per element (single-prime level, one polynomial per call is
/// not expressible through the public API: one apply_galois on a size-2 NTT ciphertext at a k-prime level makes 2k calls)
pub fn replay_galois(s: &Suite, beh: &Value) -> Value {
    let elts: Vec<Vec<usize>> = beh["elts"].as_array().unwrap().iter().map(|v| v.as_array().unwrap().iter().map(|x| x.as_u64().unwrap() as usize).collect()).collect();
    let steps = beh["steps"].as_array().unwrap();
    let schedule: Vec<usize> = steps.iter().map(|x| x["t"].as_u64().unwrap() as usize).collect();
    // a fresh context so that the permutation tables start empty (HeContext::new and KeyGenerator::new do not touch them)
    let ctx = HeContext::new(s.ps.params(), true, SecurityLevel::None);
    let base = KeyGenerator::new(ctx.clone());
    let sk = base.secret_key().clone();
    let keygens: Vec<KeyGenerator> = elts.iter().map(|_| KeyGenerator::from_sk(ctx.clone(), sk.clone())).collect();
    let works: Vec<Work> = elts.iter().zip(keygens.iter()).map(|(e, kg)| Work::GaloisKeys(kg, e.clone())).collect();
    let (obs, outs, problem) = forced(&works, &schedule);
    if let Some(p) = problem {
        return json!({"id": beh["id"], "status": "violation", "kind": "schedule", "detail": p, "observed": obs});
    }
    for (k, (o, e)) in obs.iter().zip(steps.iter()).enumerate() {
        if site_suffix(o["at"].as_str().unwrap()) != e["at"].as_str().unwrap() {
            return json!({"id": beh["id"], "status": "violation", "kind": "phase", "detail": format!("step {}: thread {} was at {} but the model has it at {}", k, o["t"], o["at"], e["at"]), "observed": obs});
        }
        for ev in o["events"].as_array().unwrap() {
            let f = ev["f"].as_array().unwrap();
            let site = site_suffix(ev["site"].as_str().unwrap());
            let idx = f[0].as_u64().unwrap();
            let full = f[1].as_u64().unwrap() > 0;
            if idx != e["e"].as_u64().unwrap() {
                return json!({"id": beh["id"], "status": "violation", "kind": "slot", "detail": format!("step {}: table index {} touched, model says {}", k, idx, e["e"]), "observed": obs});
            }
            if full != e["full"].as_bool().unwrap() {
                return json!({"id": beh["id"], "status": "violation", "kind": "table_state",
                    "detail": format!("step {}: table {} present={} after {}, the model says {}", k, idx, full, ev["site"], e["full"]), "observed": obs});
            }
            if site == "use" && (!full || f[1].as_u64().unwrap() as usize != s.ps.n) {
                return json!({"id": beh["id"], "status": "violation", "kind": "partial_table", "detail": format!("step {}: use phase sees a table of length {}", k, f[1]), "observed": obs});
            }
        }
    }
    for (i, out) in outs.iter().enumerate() {
        match out {
            Some(Ok(Out::Gk(gk))) => {
                // the generated keys must rotate correctly (their bytes are random by design)
                let ev = Evaluator::new(ctx.clone());
                let enc = Encryptor::new(ctx.clone()).set_secret_key(sk.clone());
                let dec = Decryptor::new(ctx.clone(), sk.clone());
                let be = BatchEncoder::new(ctx.clone());
                let vals: Vec<u64> = (0..s.ps.n as u64).map(|x| (x * 3 + 1) % s.ps.t).collect();
                let mut c = Ciphertext::new();
                enc.encrypt_symmetric(&be.encode_polynomial_new(&vals), &mut c);
                for &g in &elts[i] {
                    let ok = guarded(|| {
                        let r = ev.apply_galois_new(&c, g, gk);
                        let got = dec.decrypt_new(&r).data().clone();
                        let mut want = vec![0u64; s.ps.n];
                        for (j, v) in vals.iter().enumerate() {
                            let e = (j * g) % (2 * s.ps.n);
                            if e >= s.ps.n {
                                want[e - s.ps.n] = (s.ps.t - v) % s.ps.t;
                            } else {
                                want[e] = *v;
                            }
                        }
                        let mut got = got;
                        got.resize(s.ps.n, 0);
                        got == want
                    });
                    if ok != Ok(true) {
                        return json!({"id": beh["id"], "status": "violation", "kind": "result", "detail": format!("Galois key for element {} generated by thread {} does not act as X -> X^{}", g, i + 1, g)});
                    }
                }
            }
            Some(Err(e)) => return json!({"id": beh["id"], "status": "violation", "kind": "panic", "detail": format!("thread {} panicked: {}", i + 1, e)}),
            _ => return json!({"id": beh["id"], "status": "tool_error", "detail": "missing output"}),
        }
    }
    json!({"id": beh["id"], "status": "ok", "steps": obs.len()})
}

/// free-running workloads: threads under the OS scheduler, events (ordered by the sequence in which they were appended
/// under the library's own lock) are printed for trace validation; results compared with sequential ones
pub fn free_run(s: &Suite, runs: usize, seed: u64) {
    use rand::{Rng, SeedableRng};
    let mut rng = rand::rngs::StdRng::seed_from_u64(seed);
    for run in 0..runs {
        let nthreads = rng.gen_range(2..=4usize);
        let kind = ["dec", "kg", "rot"][run % 3];
        let sched = Sched::install(false);
        let decryptor = Decryptor::new(s.ctx.clone(), s.sk.clone());
        let keygen = KeyGenerator::from_sk(s.ctx.clone(), s.sk.clone());
        let ctx = HeContext::new(s.ps.params(), true, SecurityLevel::None);
        let kg2 = KeyGenerator::from_sk(ctx.clone(), s.sk.clone());
        let ev2 = Evaluator::new(ctx.clone());
        let all: Vec<usize> = (0..s.ps.n).map(|i| 2 * i + 1).collect();
        let need: Vec<usize> = (0..nthreads).map(|_| rng.gen_range(1..=3usize)).collect();
        let cts: Vec<Ciphertext> = need.iter().enumerate().map(|(i, nd)| ct_of_size(s, nd + 1, i as u64)).collect();
        let base_ct = {
            let mut c = ct_of_size(s, 2, 9);
            if !c.is_ntt_form() {
                s.evaluator.transform_to_ntt_inplace(&mut c);
            }
            c
        };
        let gk_seq = s.glk_all.clone();
        let elts: Vec<usize> = (0..nthreads).map(|_| all[rng.gen_range(0..all.len())]).collect();
        let works: Vec<Work> = match kind {
            "dec" => cts.iter().map(|c| Work::Decrypt(&decryptor, c.clone())).collect(),
            "kg" => need.iter().map(|_| Work::Relin(&keygen)).collect(),
            _ => elts.iter().enumerate().map(|(i, g)| if i % 2 == 0 { Work::Rotate(&ev2, base_ct.clone(), *g, &gk_seq) } else { Work::GaloisKeys(&kg2, vec![*g, elts[0]]) }).collect(),
        };
        let mut outs: Vec<Result<Out, String>> = vec![];
        std::thread::scope(|scope| {
            let barrier = Arc::new(std::sync::Barrier::new(works.len()));
            let hs: Vec<_> = works
                .iter()
                .enumerate()
                .map(|(i, w)| {
                    let sc = sched.clone();
                    let b = barrier.clone();
                    scope.spawn(move || {
                        sc.register(i + 1);
                        b.wait();
                        let r = run_work(w);
                        sc.finish(i + 1);
                        r
                    })
                })
                .collect();
            for h in hs {
                outs.push(h.join().unwrap_or_else(|_| Err("thread panicked".into())));
            }
        });
        let events = sched.take_events();
        Sched::uninstall();
        let mut results_ok = true;
        let mut detail = String::new();
        for (i, o) in outs.iter().enumerate() {
            match o {
                Ok(Out::Plain(p)) => {
                    let seq = Decryptor::new(s.ctx.clone(), s.sk.clone()).decrypt_new(&cts[i]).data().clone();
                    if *p != seq {
                        results_ok = false;
                        detail = format!("thread {} decrypted differently from the sequential run", i + 1);
                    }
                }
                Ok(Out::Ct(c)) => {
                    let seq = Evaluator::new(s.ctx.clone()).apply_galois_new(&base_ct, elts[i], &gk_seq);
                    if !ct_bytes_eq(c, &seq) {
                        results_ok = false;
                        detail = format!("thread {} rotated differently from the sequential run", i + 1);
                    }
                }
                Ok(Out::Relin(rk)) => {
                    if !rk.is_valid_for(&s.ctx) {
                        results_ok = false;
                        detail = "invalid relin keys".into();
                    }
                }
                Ok(Out::Gk(gk)) => {
                    if !gk.is_valid_for(&ctx) {
                        results_ok = false;
                        detail = "invalid galois keys".into();
                    }
                }
                Err(e) => {
                    results_ok = false;
                    detail = format!("thread {} panicked: {}", i + 1, e);
                }
            }
        }
        let evs: Vec<Value> = events.iter().map(|(t, site, f)| json!({"t": t, "obj": site.split('.').next().unwrap(), "site": site_suffix(site), "f": f})).collect();
        println!("{}", json!({"ev": "run", "kind": kind, "threads": nthreads, "n": s.ps.n, "events": evs, "results_ok": results_ok, "detail": detail}));
    }
}

pub fn main(args: &[String]) {
    silence_panics();
    let ps = pset(&args[1]);
    let s = Suite::new(&ps);
    match args[0].as_str() {
        "replay" => {
            use std::io::BufRead;
            let f = std::io::BufReader::new(std::fs::File::open(&args[2]).unwrap());
            let skip: usize = args.get(3).map(|x| x.parse().unwrap()).unwrap_or(0);
            for (i, line) in f.lines().enumerate() {
                if i < skip {
                    continue;
                }
                let beh: Value = serde_json::from_str(&line.unwrap()).unwrap();
                println!("{}", json!({"start": i}));
                let r = if beh["model"].as_str().unwrap() == "keycache" { replay_keycache(&s, &beh) } else { replay_galois(&s, &beh) };
                println!("{}", r);
                if BLOCKED.load(std::sync::atomic::Ordering::SeqCst) {
                    // threads of the blocked schedule are still stuck: leave the process, the driver restarts a worker
                    use std::io::Write;
                    std::io::stdout().flush().unwrap();
                    std::process::exit(17);
                }
            }
            println!("{}", json!({"done": true}));
        }
        "free" => free_run(&s, args[2].parse().unwrap(), args[3].parse().unwrap()),
        _ => panic!("c17 replay|free"),
    }
}
