//! Key material as RLWE samples (Keys.tla): every generated key component k = (c0, c1) over the key-level primes satisfies
//!     c0 + c1 * s = payload + e      with one small signed e per coefficient (the same in every prime)
//! where s is the secret key the component was generated under and the payload is
//!     0                       for a public key,
//!     P * s^2 on prime i      for component i of the relinearization key (P = the special prime),
//!     P * s(X^g) on prime i   for component i of the Galois key of element g,
//!     P * s'  on prime i      for component i of the key that switches from s' to s.
//! The harness computes c0 + c1*s - payload in coefficient form with naive negacyclic products in u128 (only the
//! inverse NTT is the library's, decided by C09) and records the residues; TLC checks the relation.
use crate::project::*;
use crate::psets::*;
use heathcliff::verif::polymod;
use heathcliff::*;
use serde_json::{json, Value};

pub fn negacyclic_mul(a: &[u64], b: &[u64], q: u64) -> Vec<u64> {
    let n = a.len();
    let mut out = vec![0u64; n];
    for i in 0..n {
        for j in 0..n {
            let p = (a[i] as u128 * b[j] as u128 % q as u128) as u64;
            let k = (i + j) % n;
            if i + j >= n {
                out[k] = (out[k] + q - p) % q;
            } else {
                out[k] = (out[k] + p) % q;
            }
        }
    }
    out
}

/// X -> X^g on a coefficient vector mod q
fn automorphism(a: &[u64], g: usize, q: u64) -> Vec<u64> {
    let n = a.len();
    let mut out = vec![0u64; n];
    for i in 0..n {
        let e = (i * g) % (2 * n);
        if e < n {
            out[e] = a[i];
        } else {
            out[e - n] = (q - a[i]) % q;
        }
    }
    out
}

pub struct KeyWorld {
    pub ctx: std::sync::Arc<HeContext>,
    pub n: usize,
    pub q: Vec<u64>,
}

impl KeyWorld {
    pub fn new(ctx: &std::sync::Arc<HeContext>) -> KeyWorld {
        let cd = ctx.key_context_data().unwrap();
        KeyWorld { ctx: ctx.clone(), n: cd.parms().poly_modulus_degree(), q: cd.parms().coeff_modulus().iter().map(|m| m.value()).collect() }
    }
    /// coefficient form of a key-level NTT polynomial (one vector per prime)
    fn coeff(&self, ntt: &[u64]) -> Vec<Vec<u64>> {
        let cd = self.ctx.key_context_data().unwrap();
        (0..self.q.len())
            .map(|j| {
                let mut c = ntt[j * self.n..(j + 1) * self.n].to_vec();
                polymod::intt(&mut c, &cd.small_ntt_tables()[j]);
                c
            })
            .collect()
    }
    pub fn secret(&self, sk: &SecretKey) -> Vec<Vec<u64>> {
        self.coeff(sk.data())
    }
    /// residues[coefficient][prime] of c0 + c1*s - payload; `payload[j]` is the payload polynomial modulo prime j
    pub fn error_of(&self, key: &Ciphertext, s: &[Vec<u64>], payload: &[Vec<u64>]) -> Vec<Vec<u64>> {
        let mut out = vec![vec![0u64; self.q.len()]; self.n];
        let mut k = key.clone();
        if k.is_ntt_form() {
            // key material is stored in NTT form over the key level
            for p in 0..k.size() {
                for j in 0..self.q.len() {
                    let cd = self.ctx.key_context_data().unwrap();
                    polymod::intt(k.poly_component_mut(p, j), &cd.small_ntt_tables()[j]);
                }
            }
        }
        for j in 0..self.q.len() {
            let q = self.q[j];
            let prod = negacyclic_mul(k.poly_component(1, j), &s[j], q);
            for c in 0..self.n {
                out[c][j] = ((k.poly_component(0, j)[c] as u128 + prod[c] as u128 + q as u128 - payload[j][c] as u128) % q as u128) as u64;
            }
        }
        out
    }
    /// payload P * m on prime i, zero elsewhere (m given modulo every prime)
    pub fn payload_on(&self, i: usize, m: &[Vec<u64>]) -> Vec<Vec<u64>> {
        let k = self.q.len();
        let p = self.q[k - 1];
        (0..k).map(|j| if j == i { m[j].iter().map(|&x| ((p % self.q[j]) as u128 * x as u128 % self.q[j] as u128) as u64).collect() } else { vec![0u64; self.n] }).collect()
    }
    pub fn zero(&self) -> Vec<Vec<u64>> {
        vec![vec![0u64; self.n]; self.q.len()]
    }
}

fn emit(w: &KeyWorld, what: &str, detail: Value, bound: u64, comps: Vec<Vec<Vec<u64>>>) {
    // BGV scales every error by the plain modulus (the message lives in the low bits): e = t * e'
    let parms = w.ctx.key_context_data().unwrap().parms().clone();
    let mult = if parms.scheme() == SchemeType::BGV { parms.plain_modulus().value() } else { 1 };
    println!("{}", json!({"ev": "key_rlwe", "what": what, "detail": detail, "n": w.n, "q": w.q, "bound": bound, "mult": mult, "comps": comps}));
}

pub fn main(args: &[String]) {
    silence_panics();
    let ps = pset(&args[0]);
    let reps: usize = args.get(1).map(|x| x.parse().unwrap()).unwrap_or(2);
    let s = Suite::new(&ps);
    let w = KeyWorld::new(&s.ctx);
    let k = w.q.len();
    for rep in 0..reps {
        let kg = if rep == 0 { None } else { Some(KeyGenerator::new(s.ctx.clone())) };
        let kg = kg.as_ref().unwrap_or(&s.keygen);
        let sk = w.secret(kg.secret_key());
        for seeded in [false, true] {
            // public key
            let pk = kg.create_public_key(seeded);
            let pk = if seeded { pk.expand_seed(&s.ctx) } else { pk };
            emit(&w, "public_key", json!({"seeded": seeded}), 21, vec![w.error_of(pk.as_ciphertext(), &sk, &w.zero())]);
            // relinearization key: s^2
            let rlk = kg.create_relin_keys(seeded);
            let rlk = if seeded { rlk.expand_seed(&s.ctx) } else { rlk };
            let s2: Vec<Vec<u64>> = (0..k).map(|j| negacyclic_mul(&sk[j], &sk[j], w.q[j])).collect();
            let comps: Vec<Vec<Vec<u64>>> = rlk.key(2).iter().enumerate().map(|(i, c)| w.error_of(c.as_ciphertext(), &sk, &w.payload_on(i, &s2))).collect();
            emit(&w, "relin_key", json!({"seeded": seeded, "components": comps.len()}), 21, comps);
            // Galois keys: s(X^g)
            let elts: Vec<usize> = vec![3, 2 * w.n - 1, 9 % (2 * w.n)];
            let glk = kg.create_galois_keys_from_elts(&elts, seeded);
            let glk = if seeded { glk.expand_seed(&s.ctx) } else { glk };
            for &g in &elts {
                if !glk.has_key(g) {
                    continue;
                }
                let sg: Vec<Vec<u64>> = (0..k).map(|j| automorphism(&sk[j], g, w.q[j])).collect();
                let comps: Vec<Vec<Vec<u64>>> = glk.key(g).iter().enumerate().map(|(i, c)| w.error_of(c.as_ciphertext(), &sk, &w.payload_on(i, &sg))).collect();
                emit(&w, "galois_key", json!({"seeded": seeded, "element": g}), 21, comps);
            }
            // key switching key from another secret key
            let other = KeyGenerator::new(s.ctx.clone());
            let so = w.secret(other.secret_key());
            let ksk = kg.create_keyswitching_key(other.secret_key(), seeded);
            let ksk = if seeded { ksk.expand_seed(&s.ctx) } else { ksk };
            let comps: Vec<Vec<Vec<u64>>> = ksk.data()[0].iter().enumerate().map(|(i, c)| w.error_of(c.as_ciphertext(), &sk, &w.payload_on(i, &so))).collect();
            emit(&w, "keyswitching_key", json!({"seeded": seeded}), 21, comps);
        }
    }
}
