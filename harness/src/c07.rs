//! C07: noise budget events. The phase is computed independently of the Decryptor (naive negacyclic products in u128).
use crate::project::*;
use crate::psets::*;
use heathcliff::verif::polymod;
use heathcliff::*;
use rand::{Rng, SeedableRng};
use serde_json::{json, Value};

fn negacyclic_mul(a: &[u64], b: &[u64], q: u64) -> Vec<u64> {
    let n = a.len();
    let mut out = vec![0u64; n];
    for i in 0..n {
        for j in 0..n {
            let p = (a[i] as u128 * b[j] as u128 % q as u128) as u64;
            let k = (i + j) % n;
            if i + j >= n {
                out[k] = (out[k] + q - p) % q;
            } else {
                out[k] = (out[k] + p) % q;
            }
        }
    }
    out
}

fn poly_mul_t(a: &[u64], b: &[u64], t: u64) -> Vec<u64> {
    negacyclic_mul(a, b, t)
}

/// residues of the phase, per coefficient: out[j][i] = phase_j mod q_i
fn phase(s: &Suite, c: &Ciphertext) -> Vec<Vec<u64>> {
    let n = s.ps.n;
    let lvl = s.level_of(c.parms_id()).unwrap();
    let q = s.moduli_at(lvl);
    let k = q.len();
    let cd = s.ctx.get_context_data(c.parms_id()).unwrap();
    let mut ct = c.clone();
    if ct.is_ntt_form() {
        s.evaluator.transform_from_ntt_inplace(&mut ct);
    }
    // secret key in coefficient form for the level's primes (the key is stored in NTT form over the key level)
    let mut sk: Vec<Vec<u64>> = vec![];
    for i in 0..k {
        let mut comp = s.sk.data()[i * n..(i + 1) * n].to_vec();
        polymod::intt(&mut comp, &cd.small_ntt_tables()[i]);
        sk.push(comp);
    }
    let mut out = vec![vec![0u64; k]; n];
    for i in 0..k {
        let mut acc = ct.poly_component(0, i).to_vec();
        let mut spow = sk[i].clone();
        for p in 1..ct.size() {
            let term = negacyclic_mul(ct.poly_component(p, i), &spow, q[i]);
            for j in 0..n {
                acc[j] = (acc[j] + term[j]) % q[i];
            }
            spow = negacyclic_mul(&spow, &sk[i], q[i]);
        }
        for j in 0..n {
            out[j][i] = acc[j];
        }
    }
    out
}

struct Tracked {
    c: Ciphertext,
    m: Vec<u64>,
    budget: i64,
}

fn budget_of(s: &Suite, c: &Ciphertext) -> i64 {
    guarded(|| {
        let mut x = c.clone();
        if x.is_ntt_form() {
            s.evaluator.transform_from_ntt_inplace(&mut x);
        }
        s.decryptor.invariant_noise_budget(&x) as i64
    })
    .unwrap_or(-1)
}

fn emit(s: &Suite, what: &str, rule: &str, operands: &[i64], tr: &Tracked) {
    let lvl = s.level_of(tr.c.parms_id()).unwrap();
    let q = s.moduli_at(lvl);
    let dec = guarded(|| {
        let mut x = tr.c.clone();
        let def_ntt = s.ps.scheme == SchemeType::BGV;
        if x.is_ntt_form() != def_ntt {
            if def_ntt {
                s.evaluator.transform_to_ntt_inplace(&mut x)
            } else {
                s.evaluator.transform_from_ntt_inplace(&mut x)
            }
        }
        let mut d = s.decryptor.decrypt_new(&x).data().clone();
        d.resize(s.ps.n, 0);
        d
    });
    println!(
        "{}",
        json!({"ev": "budget", "what": what, "scheme": scheme_name(s.ps.scheme), "n": s.ps.n, "t": s.ps.t, "q": q, "cf": tr.c.correction_factor(), "size": tr.c.size(), "lvl": lvl,
               "phase": phase(s, &tr.c), "reported": tr.budget, "rule": rule, "operands": operands, "dec": dec.unwrap_or_default(), "exp": tr.m})
    );
}

pub fn main(args: &[String]) {
    silence_panics();
    let ps = pset(&args[0]);
    let seed: u64 = args[1].parse().unwrap();
    let quick = args[2] == "quick";
    let mut rng = rand::rngs::StdRng::seed_from_u64(seed);
    let s = Suite::new(&ps);
    let (n, t) = (ps.n, ps.t);
    let be = s.batch.as_ref().unwrap();
    // for plain moduli above 32 bits: coefficients m for which the low word of (Q mod t) * m lies within (t+1)/2 of 2^64
    // (the rounding term of the plaintext scaling then carries into the high word)
    let carry_coeffs: Vec<u64> = if t > (1u64 << 32) {
        let cd = s.ctx.first_context_data().unwrap();
        let qmt = cd.coeff_modulus_mod_plain_modulus();
        let half = (t + 1) / 2;
        let mut found = vec![];
        // the largest m with qmt * m < k * 2^64, for k = 1, 2, ...
        let mut k = 1u128;
        while found.len() < 2 * n && k < (1 << 20) && qmt > 0 {
            let m = ((k << 64) - 1) / qmt as u128;
            if m >= t as u128 {
                break;
            }
            let low = (qmt as u128 * m) as u64;
            if low >= u64::MAX - half + 1 {
                found.push(m as u64);
            }
            k += 1;
        }
        found
    } else {
        vec![]
    };
    let fresh = |rng: &mut rand::rngs::StdRng, mode: usize| -> Tracked {
        let m: Vec<u64> = (0..n).map(|j| if !carry_coeffs.is_empty() && mode % 2 == 0 { carry_coeffs[(j + mode) % carry_coeffs.len()] } else { rng.gen_range(0..t) }).collect();
        let p = be.encode_polynomial_new(&m);
        let c = match mode % 3 {
            0 => s.encryptor.encrypt_new(&p),
            1 => {
                let mut d = Ciphertext::new();
                s.encryptor.encrypt_symmetric(&p, &mut d);
                d
            }
            _ => {
                let c = s.encryptor.encrypt_symmetric_new(&p);
                if is_seeded(&c) {
                    c.expand_seed(&s.ctx)
                } else {
                    c
                }
            }
        };
        let budget = budget_of(&s, &c);
        Tracked { c, m, budget }
    };
    let reps = if quick { 3 } else { 12 };
    for r in 0..reps {
        // fresh encryptions in every mode, and encryptions of zero at every level
        let f = fresh(&mut rng, r);
        emit(&s, "fresh", "fresh", &[], &f);
        for lvl in 0..=s.first() {
            let c = if r % 2 == 0 { s.encryptor.encrypt_zero_new_at(&s.level_ids[lvl]) } else { s.encryptor.encrypt_zero_symmetric_new_at(&s.level_ids[lvl]) };
            let c = if is_seeded(&c) { c.expand_seed(&s.ctx) } else { c };
            let tr = Tracked { budget: budget_of(&s, &c), c, m: vec![0; n] };
            emit(&s, "fresh_zero_at", "fresh", &[], &tr);
        }
        // negation
        let neg = Tracked { c: s.evaluator.negate_new(&f.c), m: f.m.iter().map(|x| (t - x) % t).collect(), budget: 0 };
        let neg = Tracked { budget: budget_of(&s, &neg.c), ..neg };
        emit(&s, "negate", "negate", &[f.budget], &neg);
        // k-ary additions and subtractions
        for k in 2..=(if quick { 5 } else { 8 }) {
            let ops: Vec<Tracked> = (0..k).map(|i| fresh(&mut rng, i)).collect();
            let cts: Vec<Ciphertext> = ops.iter().map(|o| o.c.clone()).collect();
            let sum = s.evaluator.add_many_new(&cts);
            let mut m = vec![0u64; n];
            for o in &ops {
                for j in 0..n {
                    m[j] = (m[j] + o.m[j]) % t;
                }
            }
            let tr = Tracked { budget: budget_of(&s, &sum), c: sum, m };
            emit(&s, "add_many", "addk", &ops.iter().map(|o| o.budget).collect::<Vec<_>>(), &tr);
            // chain of subtractions of the same operands
            let mut acc = ops[0].c.clone();
            let mut m = ops[0].m.clone();
            for o in &ops[1..] {
                s.evaluator.sub_inplace(&mut acc, &o.c);
                for j in 0..n {
                    m[j] = (m[j] + t - o.m[j]) % t;
                }
            }
            let tr = Tracked { budget: budget_of(&s, &acc), c: acc, m };
            emit(&s, "sub_chain", "addk", &ops.iter().map(|o| o.budget).collect::<Vec<_>>(), &tr);
        }
        // multiplication chain down to zero budget, with relinearization and switching
        let mut cur = fresh(&mut rng, r);
        for step in 0..8 {
            let mut other = fresh(&mut rng, step);
            s.evaluator.mod_switch_to_inplace(&mut other.c, cur.c.parms_id());
            let mut c = s.evaluator.multiply_new(&cur.c, &other.c);
            let m = poly_mul_t(&cur.m, &other.m, t);
            if step % 2 == 0 {
                s.evaluator.relinearize_inplace(&mut c, &s.rlk);
            }
            let tr = Tracked { budget: budget_of(&s, &c), c: c.clone(), m: m.clone() };
            emit(&s, "multiply", "none", &[], &tr);
            let mut nxt = tr;
            if nxt.c.size() > 2 {
                s.evaluator.relinearize_inplace(&mut nxt.c, &s.rlk);
            }
            if step % 3 == 2 && s.level_of(nxt.c.parms_id()).unwrap() > 0 {
                s.evaluator.mod_switch_to_next_inplace(&mut nxt.c);
                nxt.budget = budget_of(&s, &nxt.c);
                emit(&s, "mod_switch", "none", &[], &nxt);
            }
            nxt.budget = budget_of(&s, &nxt.c);
            let zero = nxt.budget == 0;
            cur = nxt;
            if zero && step >= 3 {
                break;
            }
        }
        // mixed-size addition (size 3 + size 2) and subtraction in both orders
        let a = fresh(&mut rng, 0);
        let b = fresh(&mut rng, 1);
        let prod = s.evaluator.multiply_new(&a.c, &b.c);
        let pm = poly_mul_t(&a.m, &b.m, t);
        let pb = budget_of(&s, &prod);
        let sum = s.evaluator.add_new(&prod, &a.c);
        let tr = Tracked { budget: budget_of(&s, &sum), c: sum, m: (0..n).map(|j| (pm[j] + a.m[j]) % t).collect() };
        emit(&s, "add_3_2", "addk", &[pb, a.budget], &tr);
        let d = s.evaluator.sub_new(&a.c, &prod);
        let tr = Tracked { budget: budget_of(&s, &d), c: d, m: (0..n).map(|j| (a.m[j] + t - pm[j]) % t).collect() };
        emit(&s, "sub_2_3", "addk", &[a.budget, pb], &tr);
    }
}
