//! C10: record the RNS base tools on inputs built from known integers (validated against Rns.tla).
//! Values are u64 numbers or little-endian word arrays; bin/check composes them and adds hints.
use crate::project::*;
use heathcliff::util::{RNSBase, RNSTool};
use heathcliff::{CoeffModulus, Modulus};
use rand::{Rng, SeedableRng};
use serde_json::{json, Value};

fn moduli(v: &[u64]) -> Vec<Modulus> {
    v.iter().map(|x| Modulus::new(*x)).collect()
}

/// residues of the multi-word integer x (little-endian words) modulo each modulus, via u128 folding (independent of the library)
fn residues(x: &[u64], ms: &[u64]) -> Vec<u64> {
    ms.iter()
        .map(|m| {
            let mut r: u128 = 0;
            for w in x.iter().rev() {
                r = ((r << 64) | (*w as u128)) % (*m as u128);
            }
            r as u64
        })
        .collect()
}

fn rand_below<R: Rng + ?Sized>(rng: &mut R, prod: &[u64]) -> Vec<u64> {
    // a random multi-word integer below prod (rejection on the top word)
    let n = prod.len();
    let h = (0..n).rev().find(|i| prod[*i] != 0).unwrap_or(0);
    loop {
        let mut v: Vec<u64> = (0..n).map(|i| if i < h { rng.gen() } else { 0 }).collect();
        v[h] = rng.gen_range(0..=prod[h]);
        let mut less = false;
        for i in (0..n).rev() {
            if v[i] < prod[i] {
                less = true;
                break;
            } else if v[i] > prod[i] {
                break;
            }
        }
        if less {
            return v;
        }
    }
}

pub fn crt_small() {
    // exhaustive compose/decompose for tiny bases (native TLC integers through the generic small facts would need a new op;
    // here every integer below the product is recorded as a BigNat crt event)
    for base in [vec![3u64, 5], vec![5, 7, 11], vec![13, 7], vec![2, 3, 5, 7]] {
        let b = RNSBase::new(&moduli(&base)).unwrap();
        let prod: u64 = base.iter().product();
        let k = base.len();
        let mut facts = vec![];
        for x in 0..prod {
            let mut v = vec![0u64; k];
            v[0] = x;
            let dec = guarded(|| {
                let mut d = v.clone();
                b.decompose(&mut d);
                d
            });
            let back = dec.clone().and_then(|d| {
                guarded(|| {
                    let mut c = d.clone();
                    b.compose(&mut c);
                    c
                })
            });
            facts.push(json!({"op": "rns_crt", "q": base, "x": [v], "r": dec.unwrap_or_default(), "back": back.unwrap_or_default()}));
        }
        // array forms: count coefficients, transposed layout
        let count = 4usize;
        let xs: Vec<u64> = (0..count as u64).map(|i| (i * 37 + 11) % prod).collect();
        let mut arr = vec![0u64; k * count];
        for (j, x) in xs.iter().enumerate() {
            arr[j * k] = *x;
        }
        let dec = guarded(|| {
            let mut d = arr.clone();
            b.decompose_array(&mut d);
            d
        });
        if let Ok(d) = &dec {
            let back = guarded(|| {
                let mut c = d.clone();
                b.compose_array(&mut c);
                c
            })
            .unwrap_or_default();
            for (j, x) in xs.iter().enumerate() {
                let r: Vec<u64> = (0..k).map(|i| d[i * count + j]).collect();
                let mut v = vec![0u64; k];
                v[0] = *x;
                let bk: Vec<u64> = if back.len() == k * count { back[j * k..(j + 1) * k].to_vec() } else { vec![] };
                facts.push(json!({"op": "rns_crt", "q": base, "x": [v], "r": r, "back": bk, "variant": "array"}));
            }
        }
        for chunk in facts.chunks(64) {
            println!("{}", json!({"ev": "rns", "facts": chunk}));
        }
    }
}

pub fn tools(n: usize, q: &[u64], t: u64, rng: &mut impl Rng, reps: usize) {
    let k = q.len();
    let base_q = match RNSBase::new(&moduli(q)) {
        Ok(b) => b,
        Err(_) => return,
    };
    let tool = match guarded(|| RNSTool::new(n, &base_q, &Modulus::new(t))) {
        Ok(Ok(t)) => t,
        _ => return,
    };
    let prod = base_q.base_prod().to_vec();
    let bsk: Vec<u64> = tool.base_Bsk().base().iter().map(|m| m.value()).collect();
    let bbase: Vec<u64> = tool.base_B().base().iter().map(|m| m.value()).collect();
    let msk = bsk[bsk.len() - 1];
    let mt = 1u64 << 32;
    let mut facts: Vec<Value> = vec![];
    let specials = |rng: &mut dyn rand::RngCore, i: usize| -> Vec<u64> {
        match i {
            0 => vec![0u64; k],
            1 => {
                let mut v = vec![0u64; k];
                v[0] = 1;
                v
            }
            2 => {
                // Q - 1
                let mut v = prod.clone();
                let mut i = 0;
                while v[i] == 0 {
                    v[i] = u64::MAX;
                    i += 1;
                }
                v[i] -= 1;
                v
            }
            _ => rand_below(&mut *rng, &prod),
        }
    };
    for rep in 0..reps {
        // n coefficients per call, each an integer below Q
        let xs: Vec<Vec<u64>> = (0..n).map(|j| specials(rng, rep * n + j)).collect();
        let mut input_q = vec![0u64; k * n];
        for (j, x) in xs.iter().enumerate() {
            let r = residues(x, q);
            for i in 0..k {
                input_q[i * n + j] = r[i];
            }
        }
        // crt on realistic sizes (compose of the residues gives x back)
        for (j, x) in xs.iter().enumerate() {
            let r: Vec<u64> = (0..k).map(|i| input_q[i * n + j]).collect();
            let back = guarded(|| {
                let mut c = r.clone();
                base_q.compose(&mut c);
                c
            })
            .unwrap_or_default();
            let dec = guarded(|| {
                let mut d = x.clone();
                base_q.decompose(&mut d);
                d
            })
            .unwrap_or_default();
            facts.push(json!({"op": "rns_crt", "q": q, "x": [x], "r": dec, "back": back}));
        }
        // (the plain fast base conversion is not public; it is observed through fastbconv_m_tilde, fast_floor and fastbconv_sk)
        // fastbconv_m_tilde and sm_mrq
        let mut mt_out = vec![0u64; (bsk.len() + 1) * n];
        if guarded(|| tool.fastbconv_m_tilde(&input_q, &mut mt_out)).is_ok() {
            let mut p = bsk.clone();
            p.push(mt);
            for (j, x) in xs.iter().enumerate() {
                let o: Vec<u64> = (0..p.len()).map(|i| mt_out[i * n + j]).collect();
                facts.push(json!({"op": "rns_mtilde", "q": q, "p": p, "x": [x], "mt": mt, "o": o}));
            }
            let mut mrq = vec![0u64; bsk.len() * n];
            if guarded(|| tool.sm_mrq(&mt_out, &mut mrq)).is_ok() {
                for j in 0..n {
                    let c: Vec<u64> = (0..bsk.len()).map(|i| mt_out[i * n + j]).collect();
                    let o: Vec<u64> = (0..bsk.len()).map(|i| mrq[i * n + j]).collect();
                    facts.push(json!({"op": "rns_mrq", "q": q, "p": bsk, "c": c, "cmt": mt_out[bsk.len() * n + j], "mt": mt, "o": o}));
                }
            } else {
                facts.push(json!({"op": "flagpanic", "what": "sm_mrq"}));
            }
        } else {
            facts.push(json!({"op": "flagpanic", "what": "fastbconv_m_tilde"}));
        }
        // fast_floor: integers x < Q * B' given by residues in q and Bsk (k+2 words)
        let big: Vec<Vec<u64>> = (0..n)
            .map(|j| {
                let mut v: Vec<u64> = (0..k + 1).map(|_| rng.gen()).collect();
                if j == 0 {
                    v = vec![0; k + 1];
                }
                v[k] >>= 8;
                v
            })
            .collect();
        let mut input_ff = vec![0u64; (k + bsk.len()) * n];
        for (j, x) in big.iter().enumerate() {
            let rq = residues(x, q);
            let rb = residues(x, &bsk);
            for i in 0..k {
                input_ff[i * n + j] = rq[i];
            }
            for i in 0..bsk.len() {
                input_ff[(k + i) * n + j] = rb[i];
            }
        }
        let mut ff = vec![0u64; bsk.len() * n];
        if guarded(|| tool.fast_floor(&input_ff, &mut ff)).is_ok() {
            for (j, x) in big.iter().enumerate() {
                let o: Vec<u64> = (0..bsk.len()).map(|i| ff[i * n + j]).collect();
                facts.push(json!({"op": "rns_floor", "q": q, "p": bsk, "x": [x], "o": o}));
            }
        } else {
            facts.push(json!({"op": "flagpanic", "what": "fast_floor"}));
        }
        // fastbconv_sk: signed y with |y| < prod(B) / 4, residues in Bsk
        let bprod = {
            let b = RNSBase::new(&moduli(&bbase)).unwrap();
            b.base_prod().to_vec()
        };
        let ys: Vec<(bool, Vec<u64>)> = (0..n)
            .map(|j| {
                let mut m = rand_below(rng, &bprod);
                let top = m.len() - 1;
                m[top] >>= 3;
                if j == 0 {
                    m = vec![0; bprod.len()];
                }
                (j % 2 == 1, m)
            })
            .collect();
        let mut input_sk = vec![0u64; bsk.len() * n];
        for (j, (neg, m)) in ys.iter().enumerate() {
            let r = residues(m, &bsk);
            for i in 0..bsk.len() {
                input_sk[i * n + j] = if *neg && r[i] != 0 { bsk[i] - r[i] } else { r[i] };
            }
        }
        let mut sk = vec![0u64; k * n];
        if guarded(|| tool.fastbconv_sk(&input_sk, &mut sk)).is_ok() {
            for (j, (neg, m)) in ys.iter().enumerate() {
                let o: Vec<u64> = (0..k).map(|i| sk[i * n + j]).collect();
                facts.push(json!({"op": "rns_sk", "q": q, "x": [m], "neg": neg, "o": o}));
            }
        } else {
            facts.push(json!({"op": "flagpanic", "what": "fastbconv_sk"}));
        }
        let _ = msk;
        // divide_and_round_q_last (coefficient and NTT form) and the BGV variant
        if k >= 2 {
            let mut a = input_q.clone();
            if guarded(|| tool.divide_and_round_q_last_inplace(&mut a)).is_ok() {
                for (j, x) in xs.iter().enumerate() {
                    let o: Vec<u64> = (0..k - 1).map(|i| a[i * n + j]).collect();
                    facts.push(json!({"op": "rns_divround", "q": q, "x": [x], "o": o, "variant": "coeff"}));
                }
            } else {
                facts.push(json!({"op": "flagpanic", "what": "divide_and_round_q_last_inplace"}));
            }
            if let Ok(Ok(tables)) = guarded(|| heathcliff::util::NTTTables::create_ntt_tables(n.trailing_zeros() as usize, &moduli(q))) {
                let r = guarded(|| {
                    let mut b = input_q.clone();
                    for i in 0..k {
                        tables[i].ntt_negacyclic_harvey(&mut b[i * n..(i + 1) * n]);
                    }
                    tool.divide_and_round_q_last_ntt_inplace(&mut b, &tables);
                    for i in 0..k - 1 {
                        tables[i].inverse_ntt_negacyclic_harvey(&mut b[i * n..(i + 1) * n]);
                    }
                    b
                });
                if let Ok(b) = r {
                    for (j, x) in xs.iter().enumerate() {
                        let o: Vec<u64> = (0..k - 1).map(|i| b[i * n + j]).collect();
                        facts.push(json!({"op": "rns_divround", "q": q, "x": [x], "o": o, "variant": "ntt"}));
                    }
                } else {
                    facts.push(json!({"op": "flagpanic", "what": "divide_and_round_q_last_ntt_inplace"}));
                }
                if t > 1 {
                    let mut c = input_q.clone();
                    if guarded(|| tool.mod_t_and_divide_q_last_inplace(&mut c)).is_ok() {
                        for (j, x) in xs.iter().enumerate() {
                            let o: Vec<u64> = (0..k - 1).map(|i| c[i * n + j]).collect();
                            facts.push(json!({"op": "rns_modtdiv", "q": q, "t": t, "x": [x], "o": o, "variant": "coeff"}));
                        }
                    } else {
                        facts.push(json!({"op": "flagpanic", "what": "mod_t_and_divide_q_last_inplace"}));
                    }
                    let r = guarded(|| {
                        let mut b = input_q.clone();
                        for i in 0..k {
                            tables[i].ntt_negacyclic_harvey(&mut b[i * n..(i + 1) * n]);
                        }
                        tool.mod_t_and_divide_q_last_ntt_inplace(&mut b, &tables);
                        for i in 0..k - 1 {
                            tables[i].inverse_ntt_negacyclic_harvey(&mut b[i * n..(i + 1) * n]);
                        }
                        b
                    });
                    if let Ok(b) = r {
                        for (j, x) in xs.iter().enumerate() {
                            let o: Vec<u64> = (0..k - 1).map(|i| b[i * n + j]).collect();
                            facts.push(json!({"op": "rns_modtdiv", "q": q, "t": t, "x": [x], "o": o, "variant": "ntt"}));
                        }
                    } else {
                        facts.push(json!({"op": "flagpanic", "what": "mod_t_and_divide_q_last_ntt_inplace"}));
                    }
                }
            }
        }
        // decryption helpers: bin/check chooses m / c and noise, so the raw event only carries the request; they are produced by a second pass
        if t > 1 {
            // x = round(Q*m/t) + e  and  x = c mod Q are built here from small pieces: m, e in words
            let ms: Vec<u64> = (0..n).map(|j| if j == 0 { t - 1 } else { rng.gen_range(0..t) }).collect();
            facts.push(json!({"op": "rns_dec_request", "q": q, "t": t, "n": n, "m": ms, "seed": rng.gen::<u32>()}));
        }
    }
    for chunk in facts.chunks(24) {
        println!("{}", json!({"ev": "rns", "facts": chunk}));
    }
}

/// second pass: bin/check supplies phases (as residues) for the decryption helpers
pub fn dec(path: &str) {
    use std::io::BufRead;
    let f = std::io::BufReader::new(std::fs::File::open(path).unwrap());
    for line in f.lines() {
        let r: Value = serde_json::from_str(&line.unwrap()).unwrap();
        let q: Vec<u64> = r["q"].as_array().unwrap().iter().map(|x| x.as_u64().unwrap()).collect();
        let t = r["t"].as_u64().unwrap();
        let n = r["n"].as_u64().unwrap() as usize;
        let k = q.len();
        let base_q = RNSBase::new(&moduli(&q)).unwrap();
        let tool = RNSTool::new(n, &base_q, &Modulus::new(t)).unwrap();
        let phase: Vec<u64> = r["phase"].as_array().unwrap().iter().map(|x| x.as_u64().unwrap()).collect();
        assert_eq!(phase.len(), k * n);
        let mut out = vec![0u64; n];
        let res = if r["kind"].as_str().unwrap() == "scaleround" {
            guarded(|| tool.decrypt_scale_and_round(&phase, &mut out))
        } else {
            guarded(|| tool.decrypt_mod_t(&phase, &mut out))
        };
        println!("{}", json!({"id": r["id"], "out": out, "panic": res.is_err()}));
    }
}

pub fn main(args: &[String]) {
    silence_panics();
    if args[0] == "dec" {
        return dec(&args[1]);
    }
    let quick = args[0] == "quick";
    let seed: u64 = args[1].parse().unwrap();
    let mut rng = rand::rngs::StdRng::seed_from_u64(seed);
    crt_small();
    let mut bases: Vec<(usize, Vec<usize>, u64)> = vec![
        (2, vec![30], 5),
        (4, vec![40, 40], 17),
        (4, vec![60, 20, 35], 17),
        (8, vec![20, 50, 60, 30], 17),
        (4, vec![60, 60, 60, 60], 1032193 % 1 + 17),
    ];
    if !quick {
        bases.extend([(2, vec![25, 30, 35, 40, 45, 50, 55, 60], 5), (8, vec![50, 50, 50], 12289), (4, vec![18, 60, 19, 59, 20, 58], 97), (4, vec![60, 59, 58, 57, 56], 17), (8, vec![40], 17)]);
    }
    // primes = 1 mod lcm(2n, t) (the usual BGV recommendation: q_last^-1 = 1 mod t) and a power-of-two plain modulus dividing 2n
    if let Ok(ps) = guarded(|| heathcliff::util::get_primes(2 * 8 * 17, 40, 3)) {
        let q: Vec<u64> = ps.iter().map(|m| m.value()).collect();
        tools(8, &q, 17, &mut rng, if quick { 2 } else { 6 });
    }
    if let Ok(ms) = guarded(|| CoeffModulus::create(8, vec![40, 30, 40])) {
        let q: Vec<u64> = ms.iter().map(|m| m.value()).collect();
        tools(8, &q, 16, &mut rng, if quick { 2 } else { 6 });
        tools(8, &q, 2, &mut rng, 1);
    }
    for (n, bits, t) in bases {
        if let Ok(ms) = guarded(|| CoeffModulus::create(n, bits.clone())) {
            let q: Vec<u64> = ms.iter().map(|m| m.value()).collect();
            tools(n, &q, t, &mut rng, if quick { 2 } else { 6 });
        }
    }
}
