//! C11: record batch encoder behaviour for validation against Batch.tla.
use crate::project::*;
use heathcliff::*;
use rand::{Rng, SeedableRng};
use serde_json::{json, Value};

fn event(n: usize, t: u64, rng: &mut impl Rng, reps: usize) -> Option<Value> {
    let qbits = vec![40usize, 40];
    let parms = EncryptionParameters::new(SchemeType::BFV)
        .set_poly_modulus_degree(n)
        .set_coeff_modulus(&CoeffModulus::create(n, qbits))
        .set_plain_modulus_u64(t);
    let ctx = HeContext::new(parms, true, SecurityLevel::None);
    if !ctx.parameters_set() {
        return None;
    }
    let be = guarded(|| BatchEncoder::new(ctx.clone())).ok()?;
    let ev = Evaluator::new(ctx.clone());
    let kg = KeyGenerator::new(ctx.clone());
    let mut vecs: Vec<Vec<u64>> = vec![];
    for i in 0..n {
        let mut v = vec![0u64; n];
        v[i] = 1;
        vecs.push(v);
    }
    vecs.push(vec![t - 1; n]);
    vecs.push(vec![]);
    vecs.push(vec![5 % t]);
    vecs.push((0..n / 2 + 1).map(|i| (i as u64 * 3 + 1) % t).collect());
    for _ in 0..reps {
        vecs.push((0..n).map(|_| rng.gen_range(0..t)).collect());
    }
    let mut enc = vec![];
    let mut dec = vec![];
    let mut polys: Vec<Vec<u64>> = vec![];
    // the destination-argument form is handed a used plaintext (a full earlier encoding), the value-returning form a fresh one
    let mut reused = be.encode_new(&(0..n).map(|i| (i as u64 * 11 + 5) % t).collect::<Vec<_>>());
    for (vi, v) in vecs.iter().enumerate() {
        let r = if vi % 2 == 0 {
            guarded(|| be.encode_new(v))
        } else {
            let mut d = reused.clone();
            let r = guarded(|| be.encode(v, &mut d));
            r.map(|_| {
                reused = d.clone();
                d
            })
        };
        if let Ok(p) = r {
            enc.push(json!({"v": v, "poly": p.data()}));
            polys.push(p.data().clone());
            if let Ok(d) = guarded(|| be.decode_new(&p)) {
                dec.push(json!({"poly": p.data(), "v": d}));
            }
        } else {
            enc.push(json!({"v": v, "poly": [t]}));
        }
    }
    // decoding of arbitrary (also short) polynomials
    for len in [1usize, 2, n - 1, n] {
        let mut p = Plaintext::new();
        p.resize(len);
        for i in 0..len {
            p.data_mut()[i] = rng.gen_range(0..t);
        }
        if let Ok(d) = guarded(|| be.decode_new(&p)) {
            dec.push(json!({"poly": p.data(), "v": d}));
        }
    }
    let mut pairs = vec![];
    for _ in 0..4 {
        let a = &polys[rng.gen_range(0..polys.len())];
        let b = &polys[rng.gen_range(0..polys.len())];
        pairs.push(json!({"a": a, "b": b}));
    }
    // rotations: the element the library associates with each step is the one for which create_galois_keys_from_steps makes a key
    let mut rot = vec![];
    let half = n as isize / 2;
    for s in (-(half - 1))..half {
        let elt = guarded(|| {
            let gk = kg.create_galois_keys_from_steps(&[s], false);
            (0..n).map(|i| 2 * i + 1).find(|g| gk.has_key(*g))
        });
        if let Ok(Some(g)) = elt {
            let v: Vec<u64> = (0..n).map(|i| (i as u64 * 7 + 2) % t).collect();
            let p = be.encode_new(&v);
            if let Ok(o) = guarded(|| ev.apply_galois_plain_new(&p, g)) {
                rot.push(json!({"s": s, "elt": g, "inp": p.data(), "out": o.data()}));
            } else {
                rot.push(json!({"s": s, "elt": g, "inp": p.data(), "out": [t]}));
            }
        }
    }
    // coefficient (polynomial) encoding
    let mut coef = vec![];
    for len in [1usize, n / 2, n] {
        let vals: Vec<u64> = (0..len).map(|i| match i % 4 { 0 => rng.gen::<u64>() >> 34, 1 => t, 2 => t - 1, _ => t + i as u64 }).collect();
        if let Ok(p) = guarded(|| be.encode_polynomial_new(&vals)) {
            let back = be.decode_polynomial_new(&p);
            coef.push(json!({"vals": vals, "poly": p.data(), "back": back}));
        }
    }
    Some(json!({"ev": "batch", "n": n, "t": t, "enc": enc, "dec": dec, "pairs": pairs, "rot": rot, "coef": coef}))
}

pub fn main(args: &[String]) {
    silence_panics();
    let quick = args[0] == "quick";
    let seed: u64 = args[1].parse().unwrap();
    let mut rng = rand::rngs::StdRng::seed_from_u64(seed);
    let table: Vec<(usize, Vec<u64>)> = vec![
        (2, vec![5, 13, 17, 29, 12289]),
        (4, vec![17, 41, 73, 97, 257]),
        (8, vec![17, 97, 113, 193, 12289]),
        (16, vec![97, 193, 257, 353, 12289]),
        (32, vec![193, 257, 449, 12289]),
        (64, vec![257, 641, 769, 12289]),
    ];
    for (n, ts) in table {
        if quick && n > 32 {
            continue;
        }
        for (k, t) in ts.iter().enumerate() {
            if quick && k >= 2 && *t != 12289 {
                continue;
            }
            if let Some(e) = event(n, *t, &mut rng, if quick { 2 } else { 6 }) {
                println!("{}", e);
            }
        }
    }
}
