//! C11: record batch encoder behaviour for validation against Batch.tla.
use crate::project::*;
use heathcliff::*;
use rand::{Rng, SeedableRng};
use serde_json::{json, Value};

fn event(n: usize, t: u64, rng: &mut impl Rng, reps: usize) -> Option<Value> {
    let qbits = vec![40usize, 40];
    let parms = EncryptionParameters::new(SchemeType::BFV)
        .set_poly_modulus_degree(n)
        .set_coeff_modulus(&CoeffModulus::create(n, qbits))
        .set_plain_modulus_u64(t);
    let ctx = HeContext::new(parms, true, SecurityLevel::None);
    if !ctx.parameters_set() {
        return None;
    }
    let be = guarded(|| BatchEncoder::new(ctx.clone())).ok()?;
    let ev = Evaluator::new(ctx.clone());
    let kg = KeyGenerator::new(ctx.clone());
    let mut vecs: Vec<Vec<u64>> = vec![];
    for i in 0..n {
        let mut v = vec![0u64; n];
        v[i] = 1;
        vecs.push(v);
    }
    vecs.push(vec![t - 1; n]);
    vecs.push(vec![]);
    vecs.push(vec![5 % t]);
    vecs.push((0..n / 2 + 1).map(|i| (i as u64 * 3 + 1) % t).collect());
    for _ in 0..reps {
        vecs.push((0..n).map(|_| rng.gen_range(0..t)).collect());
    }
    let mut enc = vec![];
    let mut dec = vec![];
    let mut polys: Vec<Vec<u64>> = vec![];
    // the destination-argument form is handed a used plaintext (a full earlier encoding), the value-returning form a fresh one
    let mut reused = be.encode_new(&(0..n).map(|i| (i as u64 * 11 + 5) % t).collect::<Vec<_>>());
    for (vi, v) in vecs.iter().enumerate() {
        let r = if vi % 2 == 0 {
            guarded(|| be.encode_new(v))
        } else {
            let mut d = reused.clone();
            let r = guarded(|| be.encode(v, &mut d));
            r.map(|_| {
                reused = d.clone();
                d
            })
        };
        if let Ok(p) = r {
            enc.push(json!({"v": v, "poly": p.data()}));
            polys.push(p.data().clone());
            if let Ok(d) = guarded(|| be.decode_new(&p)) {
                dec.push(json!({"poly": p.data(), "v": d}));
            }
        } else {
            enc.push(json!({"v": v, "poly": [t]}));
        }
    }
    // decoding of arbitrary (also short) polynomials
    for len in [1usize, 2, n - 1, n] {
        let mut p = Plaintext::new();
        p.resize(len);
        for i in 0..len {
            p.data_mut()[i] = rng.gen_range(0..t);
        }
        if let Ok(d) = guarded(|| be.decode_new(&p)) {
            dec.push(json!({"poly": p.data(), "v": d}));
        }
    }
    let mut pairs = vec![];
    for _ in 0..4 {
        let a = &polys[rng.gen_range(0..polys.len())];
        let b = &polys[rng.gen_range(0..polys.len())];
        pairs.push(json!({"a": a, "b": b}));
    }
    // rotations: the element the library associates with each step is the one for which create_galois_keys_from_steps makes a key
    let mut rot = vec![];
    let half = n as isize / 2;
    for s in (-(half - 1))..half {
        let elt = guarded(|| {
            let gk = kg.create_galois_keys_from_steps(&[s], false);
            (0..n).map(|i| 2 * i + 1).find(|g| gk.has_key(*g))
        });
        if let Ok(Some(g)) = elt {
            let v: Vec<u64> = (0..n).map(|i| (i as u64 * 7 + 2) % t).collect();
            let p = be.encode_new(&v);
            if let Ok(o) = guarded(|| ev.apply_galois_plain_new(&p, g)) {
                rot.push(json!({"s": s, "elt": g, "inp": p.data(), "out": o.data()}));
            } else {
                rot.push(json!({"s": s, "elt": g, "inp": p.data(), "out": [t]}));
            }
        }
    }
    // coefficient (polynomial) encoding
    let mut coef = vec![];
    for len in [1usize, n / 2, n] {
        let vals: Vec<u64> = (0..len).map(|i| match i % 4 { 0 => rng.gen::<u64>() >> 34, 1 => t, 2 => t - 1, _ => t + i as u64 }).collect();
        if let Ok(p) = guarded(|| be.encode_polynomial_new(&vals)) {
            let back = be.decode_polynomial_new(&p);
            coef.push(json!({"vals": vals, "poly": p.data(), "back": back}));
        }
    }
    Some(json!({"ev": "batch", "n": n, "t": t, "enc": enc, "dec": dec, "pairs": pairs, "rot": rot, "coef": coef}))
}

fn negacyclic_mul(a: &[u64], b: &[u64], t: u64) -> Vec<u64> {
    let n = a.len();
    let mut out = vec![0u64; n];
    for i in 0..n {
        for j in 0..n {
            let p = (a[i] as u128 * b[j] as u128 % t as u128) as u64;
            let k = (i + j) % n;
            if i + j >= n {
                out[k] = ((out[k] as u128 + (t - p) as u128) % t as u128) as u64;
            } else {
                out[k] = ((out[k] as u128 + p as u128) % t as u128) as u64;
            }
        }
    }
    out
}

/// plain moduli of 20..60 bits: encode/decode inverse, decode a ring homomorphism (sums and negacyclic products formed here in
/// u128, independent of the library), rotations permute the slots - judged by TLC on exact integers (BigNat)
fn big_event(n: usize, bits: usize, rng: &mut impl Rng, reps: usize) -> Option<Value> {
    let t = guarded(|| PlainModulus::batching(n, bits).value()).ok()?;
    let parms = EncryptionParameters::new(SchemeType::BFV)
        .set_poly_modulus_degree(n)
        // (a 60-bit batching prime would coincide with a 60-bit coefficient prime)
        .set_coeff_modulus(&CoeffModulus::create(n, if bits >= 59 { vec![58, 57, 58] } else { vec![60, 60, 60] }))
        .set_plain_modulus_u64(t);
    let ctx = HeContext::new(parms, true, SecurityLevel::None);
    if !ctx.parameters_set() {
        return None;
    }
    let be = guarded(|| BatchEncoder::new(ctx.clone())).ok()?;
    let ev = Evaluator::new(ctx.clone());
    let kg = KeyGenerator::new(ctx.clone());
    let full = |p: &Plaintext| -> Vec<u64> {
        let mut v = p.data().clone();
        v.resize(n, 0);
        v
    };
    let from_poly = |c: &[u64]| -> Plaintext {
        let mut p = Plaintext::new();
        p.resize(n);
        p.data_mut()[..n].copy_from_slice(c);
        p
    };
    let mut vecs: Vec<Vec<u64>> = vec![];
    for i in (0..n).step_by(if n <= 16 { 1 } else { n / 8 }) {
        let mut v = vec![0u64; n];
        v[i] = if i % 2 == 0 { 1 } else { t - 1 };
        vecs.push(v);
    }
    vecs.push(vec![t - 1; n]);
    vecs.push(vec![t / 2 + 1]);
    for _ in 0..reps {
        vecs.push((0..n).map(|_| rng.gen_range(0..t)).collect());
    }
    let mut rt = vec![];
    let mut polys: Vec<(Vec<u64>, Vec<u64>)> = vec![];
    for v in &vecs {
        let mut padded = v.clone();
        padded.resize(n, 0);
        match guarded(|| be.encode_new(v)) {
            Ok(p) => {
                let d = guarded(|| be.decode_new(&p)).unwrap_or_else(|_| vec![t; n]);
                rt.push(json!({"v": padded, "poly": full(&p), "dec": d}));
                polys.push((padded, full(&p)));
            }
            Err(_) => rt.push(json!({"v": padded, "poly": vec![t; n], "dec": vec![t; n]})),
        }
    }
    let mut pairs = vec![];
    for k in 0..(4 + reps) {
        let (ua, pa) = &polys[(k * 3 + 1) % polys.len()];
        let (ub, pb) = &polys[rng.gen_range(0..polys.len())];
        let prod = negacyclic_mul(pa, pb, t);
        let sum: Vec<u64> = (0..n).map(|i| ((pa[i] as u128 + pb[i] as u128) % t as u128) as u64).collect();
        let dp = guarded(|| be.decode_new(&from_poly(&prod))).unwrap_or_else(|_| vec![t; n]);
        let ds = guarded(|| be.decode_new(&from_poly(&sum))).unwrap_or_else(|_| vec![t; n]);
        pairs.push(json!({"a": ua, "b": ub, "prod": dp, "sum": ds}));
    }
    let mut rot = vec![];
    let half = n as isize / 2;
    let steps: Vec<isize> = if n <= 16 { ((-(half - 1))..half).collect() } else { vec![-(half - 1), -1, 0, 1, 3, half - 1] };
    for s in steps {
        let elt = guarded(|| {
            let gk = kg.create_galois_keys_from_steps(&[s], false);
            (0..n).map(|i| 2 * i + 1).find(|g| gk.has_key(*g))
        });
        if let Ok(Some(g)) = elt {
            let v: Vec<u64> = (0..n).map(|_| rng.gen_range(0..t)).collect();
            let p = be.encode_new(&v);
            let out = guarded(|| be.decode_new(&ev.apply_galois_plain_new(&p, g))).unwrap_or_else(|_| vec![t; n]);
            rot.push(json!({"s": s, "elt": g, "inp": v, "out": out}));
        }
    }
    Some(json!({"ev": "batch_big", "n": n, "t": t, "rt": rt, "pairs": pairs, "rot": rot}))
}

pub fn main(args: &[String]) {
    silence_panics();
    let quick = args[0] == "quick";
    let seed: u64 = args[1].parse().unwrap();
    let mut rng = rand::rngs::StdRng::seed_from_u64(seed);
    let table: Vec<(usize, Vec<u64>)> = vec![
        (2, vec![5, 13, 17, 29, 12289]),
        (4, vec![17, 41, 73, 97, 257]),
        (8, vec![17, 97, 113, 193, 12289]),
        (16, vec![97, 193, 257, 353, 12289]),
        (32, vec![193, 257, 449, 12289]),
        (64, vec![257, 641, 769, 12289]),
    ];
    for (n, ts) in table {
        if quick && n > 32 {
            continue;
        }
        for (k, t) in ts.iter().enumerate() {
            if quick && k >= 2 && *t != 12289 {
                continue;
            }
            if let Some(e) = event(n, *t, &mut rng, if quick { 2 } else { 6 }) {
                println!("{}", e);
            }
        }
    }
    // plain moduli beyond native TLC integers
    let big: Vec<(usize, usize)> = if quick {
        vec![(4, 33), (8, 20), (8, 40), (8, 60), (16, 50), (64, 60)]
    } else {
        vec![(2, 20), (4, 33), (8, 20), (8, 32), (8, 40), (8, 50), (8, 60), (16, 33), (16, 50), (32, 60), (64, 40), (64, 60), (256, 60), (1024, 30), (1024, 60)]
    };
    for (n, bits) in big {
        if let Some(e) = big_event(n, bits, &mut rng, if quick { 2 } else { 5 }) {
            println!("{}", e);
        }
    }
}
