//! C09: record the behaviour of the NTT tables and the polynomial helpers for validation against Ntt.tla.
use crate::project::*;
use heathcliff::util::NTTTables;
use heathcliff::verif::polymod;
use heathcliff::Modulus;
use rand::{Rng, SeedableRng};
use serde_json::{json, Value};

fn primes_1_mod(m: u64, lo: u64, hi: u64, count: usize) -> Vec<u64> {
    // smallest primes p in [lo, hi) with p = 1 (mod m), by trial division (small ranges only)
    let mut out = vec![];
    let mut p = lo - (lo % m) + 1;
    if p < lo {
        p += m;
    }
    while p < hi && out.len() < count {
        let mut is_p = p > 1;
        let mut d = 2;
        while d * d <= p {
            if p % d == 0 {
                is_p = false;
                break;
            }
            d += 1;
        }
        if is_p {
            out.push(p);
        }
        p += m;
    }
    out
}

fn tables(logn: usize, q: u64) -> Option<NTTTables> {
    guarded(|| NTTTables::new(logn, &Modulus::new(q)).ok()).ok().flatten()
}

fn small_event(logn: usize, q: u64, rng: &mut impl Rng) -> Option<Value> {
    let n = 1usize << logn;
    let t = tables(logn, q)?;
    let md = Modulus::new(q);
    let roots: Vec<u64> = (0..6).filter_map(|_| tables(logn, q).map(|x| x.root())).collect();
    let mut inputs: Vec<Vec<u64>> = vec![];
    for j in 0..n {
        let mut v = vec![0u64; n];
        v[j] = 1;
        inputs.push(v);
    }
    inputs.push(vec![q - 1; n]);
    inputs.push((0..n).map(|i| (i as u64 * 7 + 3) % q).collect());
    inputs.push((0..n).map(|_| rng.gen_range(0..q)).collect());
    let mut fwd = vec![];
    let mut inv = vec![];
    for inp in &inputs {
        let mut o = inp.clone();
        if guarded(|| t.ntt_negacyclic_harvey(&mut o)).is_ok() {
            fwd.push(json!({"inp": inp, "out": o}));
        }
        let mut o = inp.clone();
        if guarded(|| t.inverse_ntt_negacyclic_harvey(&mut o)).is_ok() {
            inv.push(json!({"inp": inp, "out": o}));
        }
        let mut o = inp.clone();
        if guarded(|| polymod::ntt(&mut o, &t)).is_ok() {
            fwd.push(json!({"inp": inp, "out": o}));
        }
        let mut o = inp.clone();
        if guarded(|| polymod::intt(&mut o, &t)).is_ok() {
            inv.push(json!({"inp": inp, "out": o}));
        }
    }
    // lazy forms on the maxima of their input ranges and on multiples of q
    let mut lazyf = vec![];
    let mut lazyi = vec![];
    let mut lz_inputs: Vec<Vec<u64>> = vec![vec![4 * q - 1; n], vec![2 * q; n], vec![q; n], (0..n).map(|_| rng.gen_range(0..4 * q)).collect()];
    for j in 0..n {
        for c in [2 * q, 2 * q + 1, 3 * q, 4 * q - 1, q] {
            let mut v = vec![0u64; n];
            v[j] = c;
            lz_inputs.push(v);
        }
    }
    for inp in &lz_inputs {
        let mut o = inp.clone();
        if guarded(|| t.ntt_negacyclic_harvey_lazy(&mut o)).is_ok() {
            lazyf.push(json!({"inp": inp, "out": o}));
        }
        // the exact forward transform also accepts lazy-range inputs
        let mut o = inp.clone();
        if guarded(|| t.ntt_negacyclic_harvey(&mut o)).is_ok() {
            lazyf.push(json!({"inp": inp, "out": o}));
        }
        let inp2: Vec<u64> = inp.iter().map(|x| x % (2 * q)).collect();
        let mut o = inp2.clone();
        if guarded(|| t.inverse_ntt_negacyclic_harvey_lazy(&mut o)).is_ok() {
            lazyi.push(json!({"inp": inp2, "out": o}));
        }
    }
    // convolution through point-wise products, shifts
    let mut conv = vec![];
    let mut shift = vec![];
    if n <= 16 {
        for _ in 0..4 {
            let a: Vec<u64> = (0..n).map(|_| rng.gen_range(0..q)).collect();
            let b: Vec<u64> = (0..n).map(|_| rng.gen_range(0..q)).collect();
            let r = guarded(|| {
                let (mut fa, mut fb) = (a.clone(), b.clone());
                polymod::ntt(&mut fa, &t);
                polymod::ntt(&mut fb, &t);
                let mut c = vec![0u64; n];
                polymod::dyadic_product(&fa, &fb, &md, &mut c);
                polymod::intt(&mut c, &t);
                c
            });
            if let Ok(c) = r {
                conv.push(json!({"a": a, "b": b, "c": c}));
            }
        }
        for s in 0..n {
            let a: Vec<u64> = (0..n).map(|i| if i % 3 == 0 { 0 } else { rng.gen_range(0..q) }).collect();
            let mut o = vec![0u64; n];
            if guarded(|| polymod::negacyclic_shift(&a, s, &md, &mut o)).is_ok() {
                shift.push(json!({"inp": a, "s": s, "out": o}));
            }
        }
    }
    Some(json!({"op": "ntt_small", "n": n, "q": q, "root": t.root(), "roots": roots, "fwd": fwd, "inv": inv, "lazyf": lazyf, "lazyi": lazyi, "conv": conv, "shift": shift}))
}

fn big_event(logn: usize, q: u64, js: &[usize], few: bool) -> Option<Value> {
    let n = 1usize << logn;
    let t = tables(logn, q)?;
    let roots: Vec<u64> = (0..3).filter_map(|_| tables(logn, q).map(|x| x.root())).collect();
    let mut units = vec![];
    for &j in js {
        let all = [("fwd", 1u64), ("fwd", q - 1), ("lazy", 2 * q), ("lazy", 4 * q - 1), ("lazy", 2 * q + 1), ("inv", 1), ("inv", q - 1), ("lazyinv", 2 * q - 1)];
        let some = [("fwd", q - 1), ("lazy", 2 * q), ("inv", 1u64)];
        let kinds: &[(&str, u64)] = if few { &some } else { &all };
        for &(kind, c) in kinds {
            let mut v = vec![0u64; n];
            let r = match kind {
                "fwd" => {
                    v[j] = c;
                    guarded(|| t.ntt_negacyclic_harvey(&mut v))
                }
                "lazy" => {
                    v[j] = c;
                    guarded(|| t.ntt_negacyclic_harvey_lazy(&mut v))
                }
                _ => {
                    // input = transform of c' * X^j (exact), then the inverse under test
                    v[j] = c % q;
                    let _ = guarded(|| t.ntt_negacyclic_harvey(&mut v));
                    if kind == "inv" {
                        guarded(|| t.inverse_ntt_negacyclic_harvey(&mut v))
                    } else {
                        guarded(|| t.inverse_ntt_negacyclic_harvey_lazy(&mut v))
                    }
                }
            };
            units.push(json!({"kind": kind, "j": j, "c": c, "out": v, "panic": r.is_err()}));
        }
    }
    Some(json!({"op": "ntt_big", "n": n, "q": q, "root": t.root(), "roots": roots, "units": units}))
}

pub fn main(args: &[String]) {
    silence_panics();
    let quick = args[0] == "quick";
    let seed: u64 = args[1].parse().unwrap();
    let mut rng = rand::rngs::StdRng::seed_from_u64(seed);
    // small moduli: all NTT-friendly primes below a bound for N = 2..64
    for logn in 1..=(if quick { 5 } else { 6 }) {
        let m = 2u64 << logn;
        // (degree 64: TLC needs about 12 minutes per modulus for the 1 240 transforms of 64 points - three moduli)
        let ps = primes_1_mod(m, m + 1, 16384, if quick { 4 } else if logn >= 6 { 3 } else { 12 });
        for q in ps {
            if let Some(e) = small_event(logn, q, &mut rng) {
                println!("{}", json!({"ev": "big", "facts": [e]}));
            }
        }
    }
    // moduli of 20..61 bits as the library generates them, plus the largest admissible
    let bitsets: Vec<usize> = if quick { vec![20, 40, 61] } else { vec![17, 20, 25, 30, 35, 40, 45, 50, 55, 60, 61] };
    for logn in [1usize, 3, 4, 6, 8, 10, 12] {
        if quick && (logn == 6 || logn == 10 || logn == 12) {
            continue;
        }
        if !quick && logn == 8 {
            continue;
        }
        let n = 1usize << logn;
        for &b in &bitsets {
            if b <= logn + 2 {
                continue;
            }
            let q = if b == 61 {
                // the internal 61-bit auxiliary primes
                guarded(|| heathcliff::util::get_primes(2 * n as u64, 61, 1)[0].value())
            } else {
                guarded(|| heathcliff::CoeffModulus::create(n, vec![b])[0].value())
            };
            // (thorough: the largest degree only for three moduli and two monomials - each image is 4096 exact BigNat facts)
            if !quick && logn == 12 && !(b == 25 || b == 45 || b == 61) {
                continue;
            }
            if let Ok(q) = q {
                let js: Vec<usize> = if n <= 16 {
                    (0..n).collect()
                } else if quick {
                    vec![1, n - 1]
                } else if logn >= 12 {
                    vec![1, rng.gen_range(0..n)]
                } else if logn >= 10 {
                    vec![1, n - 1, rng.gen_range(0..n)]
                } else {
                    vec![0, 1, 2, n / 2, n - 1, rng.gen_range(0..n)]
                };
                if let Some(e) = big_event(logn, q, &js, quick && n > 16) {
                    println!("{}", e);
                }
            }
        }
    }
}
